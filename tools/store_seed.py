#!/usr/bin/env python3
# usage: tools/store_seed.py <outdir> <seed-id> <expected: caught|missed> [note]   -- stores a confirmed seeded change under /verif/seeded
import json, os, shutil, subprocess, sys
out, sid, exp = sys.argv[1:4]; note = sys.argv[4] if len(sys.argv) > 4 else None
d = os.path.join('/verif/seeded', sid); os.makedirs(d, exist_ok=True)
m = json.load(open(os.path.join(out, 'meta.json')))
conf = [l for l in open(os.path.join(out, 'confirm.log')) if l.startswith('RESULT')]
assert conf and 'demo_with_patch_rc=101 demo_without_patch_rc=0 suite_with_patch_rc=0' in conf[-1], conf
meta = {"breaks_property": m["property"], "source": "independent sub-agent given only the property text and a scratch worktree",
        "summary": m["summary"], "files": m["files"], "needs_to_manifest": m["needs_to_manifest"], "demo_cmd": m["demo_cmd"],
        "what_i_ran": "tools/confirm_seed.sh: (1) demo with patch applied -> must fail, (2) demo with patch reverted -> must pass, (3) unedited workspace suite `cargo test --offline --workspace` with patch applied and demo removed -> must pass",
        "confirm_result": conf[-1].strip(),
        "base_commit": subprocess.check_output(['git', '-C', '/repo', 'rev-parse', '--short', 'HEAD'], text=True).strip(),
        "expected": exp}
if note: meta["note"] = note
for f in ('patch.diff', 'demo.diff'): shutil.copy(os.path.join(out, f), d)
json.dump(meta, open(os.path.join(d, 'meta.json'), 'w'), indent=1)
print('stored', d)
