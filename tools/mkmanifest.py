#!/usr/bin/env python3
"""Regenerates /verif/MANIFEST.json from the unit registry (units/*/unit.json) and the table below."""
import glob, json, os
ROOT = os.path.dirname(os.path.dirname(os.path.abspath(__file__)))
units = {}
for p in sorted(glob.glob(os.path.join(ROOT, "units", "*", "unit.json"))):
    u = json.load(open(p)); u["name"] = os.path.basename(os.path.dirname(p)); units[u["name"]] = u

KERNEL = ("the named obligations are proved for all inputs; the property as a whole (its quantification over "
          "histories / schedules / back ends) is not")
CLAIMS = {
 "C18": dict(text="Proof of the per-call kernels of C18 on the real code: both comparators equal the documented lexicographic orders for all inputs (Kani function contracts, complete), the last-message pointer update is max(old,new) under the display order with a full frame condition (Verus on the function extracted each run). " + KERNEL + ".",
             note="Trusted: Kani/CBMC and Verus/Z3; the nostr Timestamp/EventId shims (u64 order, lexicographic bytes); Verus treats usize as 64-bit. Not covered: SQL ORDER BY/LIMIT/OFFSET, std sort_by, the pointer after rollbacks (history).",
             technique="contract-based deductive verification: Verus on mechanically extracted functions + Kani proof_for_contract", ref="DESIGN.md §3 C18"),
}
NA = {
 "C09": "rollback restore is SQL statements / HashMap::retain closures behind parking_lot: no function contract within reach of Verus or Kani (DESIGN §4)",
 "C10": "differential equivalence of a hash-map store and a SQL schema over operation sequences; one side is SQL (DESIGN §4); the shared comparators are proved under C18",
 "C11": "two-run hyperproperty over histories and a database file; in-reach kernel is string formatting code neither verifier reasons about (DESIGN §4)",
 "C12": "quantifies over crash points inside SQLite transactions; no function contract expresses it (DESIGN §4)",
 "C13": "bytes of database files, SQLCipher pragmas, Unix modes, keyring races: outside any Rust function contract (DESIGN §4)",
 "C14": "subject is the tracing call sites, which extraction rule X1 deletes and which crash Kani; needs information-flow analysis, a different family (DESIGN §4)",
 "C19": "thread interleavings: Kani has no threads, Verus needs its own permission types (DESIGN §4)",
}
ALL = ["C%02d" % i for i in range(1, 21)]
checks = []
for pid in ALL:
    if pid not in CLAIMS:
        continue
    c = CLAIMS[pid]
    us = [u["name"] for u in units.values() if pid in u.get("properties", [])]
    if not us:
        continue
    checks.append({
        "property_id": pid,
        "quick_cmd": f"bin/check {pid} --tier quick",
        "thorough_cmd": f"bin/check {pid} --tier thorough",
        "evidence_file": f"/verif/evidence/{pid}.json",
        "replay_cmd_template": "bin/check --replay {path}",
        "engine": "verus-x+kani" if any(units[n].get("engine") == "kani" for n in us) else "verus-x",
        "level_claimed": {"category": "proof", "text": c["text"], "design_ref": c["ref"]},
        "level_note": c["note"] + " Units: " + ", ".join(us) + ".",
        "technique": c["technique"],
    })
na = [{"property_id": p, "reason": r} for p, r in NA.items()]
for pid in ALL:
    if pid not in NA and not any(c["property_id"] == pid for c in checks):
        na.append({"property_id": pid, "reason": "no check registered yet in this commit (kernel obligations designed in DESIGN.md §3, unit not built); not claimed"})
na.sort(key=lambda x: x["property_id"])
m = {
 "version": 1,
 "setup_cmd": "cd /verif/tools/vx && CARGO_NET_OFFLINE=true cargo build --release --offline",
 "hooks": {"guard": "none", "enable": "no source hooks: contracts are spliced onto text extracted from /repo at every run (Verus) or onto a scratch copy (Kani)",
           "baseline_off_cmd": "cd /repo && cargo test --workspace --no-fail-fast --offline", "source_commits": [], "add_only": True},
 "engines": [
   {"name": "verus-x", "path": "tools/vx + driver/check.py", "serves_properties": sorted({p for u in units.values() if u.get("engine", "verus") == "verus" for p in u["properties"]}), "kind_free_text": "Verus 0.2026.09.13 on functions extracted by byte span from /repo at every run (rewrites X1-X7), contracts spliced from units/<u>/unit.rs.tmpl"},
   {"name": "kani", "path": "driver/kani_unit.py", "serves_properties": sorted({p for u in units.values() if u.get("engine") == "kani" for p in u["properties"]}), "kind_free_text": "Kani 0.68 function contracts (proof_for_contract) spliced onto a scratch copy of the real crates; counterexamples replayed with cargo test"},
 ],
 "checks": checks,
 "not_applicable": na,
 "notes": "Exit 2 from a check means undecided (lost anchor, construct outside the verifier's subset, solver limit, vacuity probe), never a violation. known_findings.txt lists genuine defects recorded rather than repaired.",
}
json.dump(m, open(os.path.join(ROOT, "MANIFEST.json"), "w"), indent=1)
print("checks:", [c["property_id"] for c in checks])
