#!/usr/bin/env python3
"""Regenerates /verif/MANIFEST.json from the unit registry (units/*/unit.json) and the table below."""
import glob, json, os
ROOT = os.path.dirname(os.path.dirname(os.path.abspath(__file__)))
units = {}
for p in sorted(glob.glob(os.path.join(ROOT, "units", "*", "unit.json"))):
    u = json.load(open(p)); u["name"] = os.path.basename(os.path.dirname(p)); units[u["name"]] = u

KERNEL = ("the named obligations are proved for all inputs; the property as a whole (its quantification over "
          "histories / schedules / back ends) is not")
TECH = "contract-based deductive verification: Verus on functions extracted by span from /repo at every run (+ Kani proof_for_contract where listed)"
TRUST = "Trusted: Verus/Z3 (and Kani/CBMC where used); the assumed contracts of nostr, OpenMLS, std and of the storage traits listed in evidence.trusted_base; usize treated as 64-bit. "
def claim(what, notcov, ref):
    return dict(text="Kernel proof: " + what + " " + KERNEL + ".", note=TRUST + "Not covered: " + notcov, technique=TECH, ref=ref)
CLAIMS = {
 "C01": claim("the MIP-03 decision of is_better_candidate equals the strict lexicographic order (timestamp, id) with irreflexivity/asymmetry/transitivity/totality lemmas, and it is taken against the snapshot of exactly the candidate's epoch; every MLS merge in process_commit and the own-pending path is preceded by a rollback snapshot recording exactly this epoch, event id and timestamp; a rejected commit leaves no snapshot behind; only a commit message can raise the wrong-epoch error that enters the MIP-03 path; the rollback path of handle_processing_error consults MIP-03 with this event, and runs rollback -> invalidate(> epoch) -> mark-retryable -> notify -> reprocess only if the candidate is better; the in-memory back end invalidates exactly records of strictly later epochs and its group snapshot / restore closures select exactly this group's rows.",
              "convergence over delivery schedules, group sizes, fork chains; OpenMLS state equality; the SQLite back end's snapshot / invalidation SQL; MDK::merge_pending_commit takes no snapshot (known finding F4).", "DESIGN.md §3 C01, §8"),
 "C02": claim("process_application_message and create_message store exactly the rumor's fields with the epoch the message was sent in, one message + one dedup record per call; own-echo state machine Created->Processed; the past-epoch window of the NIP-44 fallback is exactly [cur-L, cur-1], newest first; the configured out-of-order / forward-distance windows reach OpenMLS unchanged on create and join; a rollback to epoch E invalidates (memory back end) exactly the messages of epochs > E.",
              "exactly-once under arbitrary interleavings; OpenMLS ratchet windows; SQLite UPDATE statements.", "DESIGN.md §3 C02, §8"),
 "C03": claim("after a merge that removes the local member the group record becomes Inactive and no exporter secret is exported and no metadata sync happens; exporter/sync call sites carry the precondition 'still a member'; the NIP-44 lookback never reaches beyond L past epochs nor a future epoch; a group becomes Active only in accept_welcome; remove_members selects every leaf of each named identity and nothing else.",
              "confidentiality itself (MLS + NIP-44 cryptography are uninterpreted), membership histories.", "DESIGN.md §3 C03"),
 "C04": claim("the author check precedes every message write; the stored pubkey is the authenticated sender (the credential of the MLS message itself); the stored id is the NIP-01 hash of the stored fields on the receiving and on the sending side.",
              "OpenMLS replay protection; storage upsert semantics in the SQLite back end.", "DESIGN.md §3 C04"),
 "C05": claim("authorization decision table of validate_commit_authorization incl. the pure-self-update whitelist (closure contracts); identity checks of commits and proposals; both validators succeed before the snapshot and the merge; a rejected commit leaves the world unchanged; proposal triage (auto-commit iff self-remove and receiver admin; proposals never merge); admin gate before any MLS mutation in add/remove/update, which name exactly their arguments.",
              "OpenMLS commit construction; admin operations sweep the whole proposal store (known finding F5, four call sites).", "DESIGN.md §3 C05"),
 "C06": claim("absence of overflow / out-of-bounds / failed-unwrap panics in every extracted function for all inputs (implicit obligations of each unit); refusal paths write nothing but the failure record; every input check of process_welcome precedes its first write; a commit whose new group data is undecodable is refused before the merge.",
              "panic-freedom of string / closure based validators (key-package tags, imeta) and of the parsers behind the shims (TLS codec, serde, base64, OpenMLS); two known findings (F10 refused leave proposal stays queued, F12 commit taking another group's nostr id).", "DESIGN.md §3 C06, §8"),
 "C07": claim("dedup step of process_message: Failed/EpochInvalidated return with no write; a commit is never better than itself (MIP-03 irreflexive) and a stale proposal / application message never enters the MIP-03 comparison; own-echo on Processed/ProcessedCommit writes no message state; a rejected commit leaves no snapshot.",
              "re-delivery after arbitrary intermediate histories.", "DESIGN.md §3 C07"),
 "C08": claim("sync_group_metadata_from_mls copies epoch, name, description, admins, image fields, nostr group id and relays from the MLS state and nothing else; every merge site is followed by a sync before Ok; the in-memory save_group keeps the nostr-id index exact.",
              "'after every API call' over all histories; SQLite unique index; routing lookup; known finding F12.", "DESIGN.md §3 C08"),
 "C09": claim("for the IN-MEMORY back end, create_group_scoped_snapshot and restore_group_scoped_snapshot statement by statement over the whole store struct (extracted from the source; std adapter chains through opaque shims applied to the real closures): a snapshot holds, table by table and with their values, exactly this group's rows; every step of a rollback changes exactly one table (struct-update equality over all 17 fields: messages, dedup records, welcomes, key packages, signature / encryption keys untouched), drops exactly this group's rows, keeps every other row unchanged, and writes every snapshot row back under this group's key; the Nostr-id index stays exact (lemma); in mdk-core, rollback_to_epoch restores the snapshot found for this group and epoch, releases exactly the later ones and nothing else. For the SQLite back end NO proof: two bounded stand-ins (real SQLite, stated scope) compare a rollback with the state at snapshot time and with the memory back end.",
              "composition of the per-statement results into one theorem; the std adapter chains themselves (assumed contracts of the shim types); nesting of snapshots; the SQLite restore (SQL text: bounded only).", "DESIGN.md §3 C09"),
 "C10": claim("the IN-MEMORY back end against the storage contract the orchestration proofs assume (the reference model): every record table (dedup records, welcomes, processed welcomes, groups and their Nostr-id index, relays, per-epoch secrets, messages incl. the eviction step of save_message) is an upsert / lookup under exactly the documented key with a frame condition; invalidation / retry / pending selections choose exactly the records the contract names; both listing comparators equal the documented total orders (Kani, complete) and the memory listing and last_message use them; page windows and limit checks of BOTH back ends; the SQLite row decoders map each column to its field, and the values bound to the INSERTs of messages / dedup records / groups / secrets / processed welcomes are, position by position, the fields the column list names. The SQLite statements themselves: NO proof, 13 bounded stand-ins (real SQLite vs. real memory back end vs. the contract, stated scopes).",
              "SQL text (bounded only); capacity eviction of the LRU caches ('within the documented limits'); operation SEQUENCES (each operation is verified against the model separately; composition is by the model); std sort / iterator adapters.", "DESIGN.md §3 C10"),
 "C11": claim("the two restart mechanisms that are Rust code: ensure_hydrated's loop re-creates the snapshot queue from storage within the retention bound, keeping the most recent in order and releasing the rest; parse_snapshot_name gives a re-loaded snapshot the epoch, commit id and group of its name; the builder passes retention / TTL through and prunes by age at build(); is_better_candidate requests hydration of the group's queue first. The obligation that a re-loaded snapshot still carries its commit timestamp FAILS on the unchanged tree (known finding F16: race resolution does not survive a restart). Two bounded stand-ins (a history with two restarts on a database file; same-second snapshots read back in order).",
              "everything that lives in the database file (SQL, migrations: bounded only); the two-run comparison over histories; pending commits / proposals / key packages across restarts (OpenMLS storage provider).", "DESIGN.md §3 C11"),
 "C15": claim("group-data extension from_raw accepts exactly the fixed field lengths and version != 0 and copies every field; deserialize rejects trailing bytes; key-package parse order (kind, tags, content, identity binding); h-tag: exactly one tag of 64 hex characters; ContentEncoding accepts only an explicit recognised tag and has no default; as_raw (the encoding half, whole function) maps every field to its own TLS field, absent image fields to empty vectors and present ones to their 32 / 12 bytes -- the shapes from_raw accepts and maps back.",
              "decode(encode(x)) == x as one theorem (the two halves are proved in two units over the same field shapes); string-level tag grammar inside validate_key_package_tags, TLS codec of tls_codec/OpenMLS, imeta text format.", "DESIGN.md §3 C15, §8.2"),
 "C16": claim("re-processing a processed welcome returns the stored one and writes nothing; a failed one is refused; preview failure writes only the Failed record; Pending after process, Active + self-update Required only after accept, Inactive after decline; welcome and dedup record saved together; nothing is written before the last input check.",
              "joiner/inviter MLS state equality (OpenMLS); known finding F3 (a welcome overwrites an Active group's record).", "DESIGN.md §3 C16"),
 "C17": claim("HKDF context and AAD byte layouts; injectivity lemma for NUL-free mime/filename; upload binds key, AAD and published metadata to the same canonical fields; decrypt returns bytes only after the SHA-256 check; scheme-version whitelist; the epoch hint stored with a message is the epoch the message was sent in (sender and receiver).",
              "AEAD/HKDF/SHA-256 themselves (uninterpreted); the epoch-hint lookup by tag content (string search).", "DESIGN.md §3 C17"),
 "C18": dict(text="Proof of the per-call kernels of C18 on the real code: both key comparators equal the documented lexicographic orders for all inputs (Kani function contracts, complete) and the two Message comparators apply them to (self, other); the last-message pointer update is max(old,new) under the display order with a full frame condition; page-window arithmetic never overflows and yields exactly the slice [min(off,n), min(off+lim,n)) of the sorted list, consecutive pages partition the list (lemma), limits outside 1..=10000 are refused in both back ends; the SQLite save_group binds each last-message column to its field (Verus on functions / fragments extracted each run). " + KERNEL + ".",
             note=TRUST + "Not covered: SQL text (ORDER BY/LIMIT/OFFSET, upsert column lists), std sort_by, the pointer after rollbacks (history).",
             technique=TECH, ref="DESIGN.md §3 C18"),
 "C20": claim("prune loops of EpochSnapshotManager (create_snapshot, ensure_hydrated) and the release loop of rollback_to_epoch: for every queue length and every retention value, afterwards len <= retention, survivors are the most recent suffix in order, every dropped / superseded entry was handed to release_group_snapshot and nothing else was released; termination; the builder passes the configured retention and prunes with now - ttl (saturating).",
              "how the queue is obtained from the Mutex<HashMap>; back-end side of release / prune / re-insert (SQL); restarts.", "DESIGN.md §3 C20"),
}
NA = {
 "C12": "quantifies over crash points inside SQLite transactions; no function contract expresses it (DESIGN §4)",
 "C13": "bytes of database files, SQLCipher pragmas, Unix modes, keyring races: outside any Rust function contract (DESIGN §4)",
 "C14": "subject is the tracing call sites, which extraction rule X1 deletes and which crash Kani; needs information-flow analysis, a different family (DESIGN §4)",
 "C19": "thread interleavings: Kani has no threads, Verus needs its own permission types (DESIGN §4)",
}
ALL = ["C%02d" % i for i in range(1, 21)]
checks = []
for pid in ALL:
    if pid not in CLAIMS:
        continue
    c = CLAIMS[pid]
    us = [u["name"] for u in units.values() if pid in u.get("properties", [])]
    if not us:
        continue
    checks.append({
        "property_id": pid,
        "quick_cmd": f"bin/check {pid} --tier quick",
        "thorough_cmd": f"bin/check {pid} --tier thorough",
        "evidence_file": f"/verif/evidence/{pid}.json",
        "replay_cmd_template": "bin/check --replay {path}",
        "engine": ("verus-x+kani" if any(units[n].get("engine") == "kani" for n in us) else "verus-x") + ("+bounded(cargo test)" if any(units[n].get("engine") == "bounded" for n in us) else ""),
        "level_claimed": {"category": "proof", "text": c["text"], "design_ref": c["ref"]},
        "level_note": c["note"] + (" The SQL text of the SQLite back end is outside every contract; for it a BOUNDED stand-in (unit sqlite_bounded: the real SQLite and the real in-memory back end executed side by side on every scenario of a small stated scope, compared with the storage contract) runs in the same check; it is labelled bounded in the evidence (coverage.bounded_checks) and is not counted among the proved obligations." if any(units[n].get("engine") == "bounded" for n in us) else "") + " Units: " + ", ".join(us) + ".",
        "technique": c["technique"],
    })
na = [{"property_id": p, "reason": r} for p, r in NA.items()]
for pid in ALL:
    if pid not in NA and not any(c["property_id"] == pid for c in checks):
        na.append({"property_id": pid, "reason": "no check registered yet in this commit (kernel obligations designed in DESIGN.md §3, unit not built); not claimed"})
na.sort(key=lambda x: x["property_id"])
m = {
 "version": 1,
 "setup_cmd": "cd /verif/tools/vx && CARGO_NET_OFFLINE=true cargo build --release --offline",
 "hooks": {"guard": "none", "enable": "no source hooks: contracts are spliced onto text extracted from /repo at every run (Verus) or onto a scratch copy (Kani)",
           "baseline_off_cmd": "cd /repo && cargo test --workspace --no-fail-fast --offline", "source_commits": [], "add_only": True},
 "engines": [
   {"name": "verus-x", "path": "tools/vx + driver/check.py", "serves_properties": sorted({p for u in units.values() if u.get("engine", "verus") == "verus" for p in u["properties"]}), "kind_free_text": "Verus 0.2026.09.13 on functions extracted by byte span from /repo at every run (rewrites X1-X7), contracts spliced from units/<u>/unit.rs.tmpl"},
   {"name": "kani", "path": "driver/kani_unit.py", "serves_properties": sorted({p for u in units.values() if u.get("engine") == "kani" for p in u["properties"]}), "kind_free_text": "Kani 0.68 function contracts (proof_for_contract) spliced onto a scratch copy of the real crates; counterexamples replayed with cargo test"},
 ],
 "checks": checks,
 "not_applicable": na,
 "notes": "Exit 2 from a check means undecided (lost anchor, construct outside the verifier's subset, solver limit, vacuity probe), never a violation. known_findings.txt lists genuine defects recorded rather than repaired.",
}
json.dump(m, open(os.path.join(ROOT, "MANIFEST.json"), "w"), indent=1)
print("checks:", [c["property_id"] for c in checks])
