#!/usr/bin/env python3
# usage: tools/addtag.py <Cxx> <label-regex> [...]   -- adds property Cxx to every clause label matching one of the regexes, to the
# props= of the extract that carries it, and to units/<u>/unit.json (development aid; tags are DEPENDENCIES: an obligation is
# reported under every property that depends on it)
import glob, json, re, sys
prop, pats = sys.argv[1], [re.compile(p) for p in sys.argv[2:]]
touched_units = set(); n = 0
def addp(props):
    ps = [x for x in props.split(',') if x]
    if prop not in ps: ps.append(prop); ps.sort()
    return ','.join(ps)
files = [f for f in glob.glob('/verif/units/**/*', recursive=True) if f.endswith(('.tmpl', '.clauses', '.rs'))]
for f in files:
    lines = open(f).read().split('\n'); changed = False
    last_extract = None
    for i, l in enumerate(lines):
        if l.startswith('//@extract'):
            last_extract = i
        m = re.match(r'(//@[a-z_]+\[(?:[a-z]+=\d+;)*)([A-Za-z0-9_.]+)\|([C0-9,]*)(.*)$', l)
        if m and any(p.search(m.group(2)) for p in pats):
            newp = addp(m.group(3))
            if newp != m.group(3):
                lines[i] = m.group(1) + m.group(2) + '|' + newp + m.group(4); changed = True; n += 1
            if last_extract is not None and f.endswith('.tmpl'):
                e = lines[last_extract]
                me = re.search(r'props=([C0-9,]+)', e)
                if me and prop not in me.group(1).split(','):
                    lines[last_extract] = e[:me.start(1)] + addp(me.group(1)) + e[me.end(1):]; changed = True
            if '/units/_common/' not in f:
                touched_units.add(f.split('/units/')[1].split('/')[0])
    if changed: open(f, 'w').write('\n'.join(lines))
# clause files of _common: units that include them
for f in files:
    if '/units/_common/contracts/' in f: continue
for u in sorted(touched_units):
    p = f'/verif/units/{u}/unit.json'; d = json.load(open(p))
    if prop not in d['properties']: d['properties'] = sorted(set(d['properties']) | {prop}); json.dump(d, open(p, 'w'), indent=1)
print(prop, 'added to', n, 'clauses; units', sorted(touched_units))
