#!/usr/bin/env python3
# usage: tools/taglint.py [--fix] : every property named in a clause tag (//@ensures[label|C01,C02] ..., //@L[label|C01|..]) must also be in the
# extract's props= and in the unit's unit.json "properties" -- otherwise the obligation is never run for that property (tags are dependencies).
import glob, json, os, re, sys
fix = '--fix' in sys.argv
bad = 0
for tmpl in sorted(glob.glob('/verif/units/*/unit.rs.tmpl')):
    d = os.path.dirname(tmpl); uj = os.path.join(d, 'unit.json')
    u = json.load(open(uj)); props = set(u.get('properties', []))
    lines = open(tmpl).read().split('\n')
    cur = None  # index of current extract line
    changed = False
    for i, l in enumerate(lines):
        if l.startswith('//@extract'): cur = i
        elif l.startswith('//@end'): cur = None
        m = re.match(r'//@(?:ensures|requires|invariant|lemma|L)\[([^\]]*)\]', l)
        if not m: continue
        parts = m.group(1).split(';')[-1].split('|')
        if len(parts) < 2: continue
        tags = set(t for t in parts[1].split(',') if re.fullmatch(r'C\d\d', t))
        miss_unit = tags - props
        if miss_unit:
            bad += 1; print(f'{os.path.basename(d)}: clause {parts[0]} tags {sorted(miss_unit)} not in unit.json properties')
            if fix: props |= miss_unit; changed = True
        if cur is not None:
            pm = re.search(r'props=([A-Z0-9,]+)', lines[cur])
            if pm:
                ep = set(pm.group(1).split(','))
                if tags - ep:
                    bad += 1; print(f'{os.path.basename(d)}: clause {parts[0]} tags {sorted(tags - ep)} not in props= of its extract')
                    if fix:
                        lines[cur] = lines[cur].replace('props=' + pm.group(1), 'props=' + ','.join(sorted(ep | tags))); changed = True
    if fix and changed:
        open(tmpl, 'w').write('\n'.join(lines))
        u['properties'] = sorted(props); json.dump(u, open(uj, 'w'), indent=1)
print('problems:', bad)
