#!/usr/bin/env python3
# usage: tools/counts.py [evidence-dir]  -- the totals quoted in DESIGN.md 8.1, computed from the evidence files of a full quick run
import glob, json, os, sys
d = sys.argv[1] if len(sys.argv) > 1 else '/verif/evidence'
obl, fns, bounded, kf = {}, set(), set(), set()
for f in sorted(glob.glob(os.path.join(d, 'C*.json'))):
    c = json.load(open(f))['coverage']
    for o in c['per_obligation']:
        key = (o['label'], o.get('site') or o.get('unit'))
        obl[key] = o
    for fn in c['functions_under_contract']: fns.add(fn['id'])
    for b in (c.get('bounded_checks') or {}).get('checks', []): bounded.add(b['label'])
    for k in c.get('known_findings') or []: kf.add(json.dumps(k, sort_keys=True) if not isinstance(k, str) else k)
disc = sum(1 for o in obl.values() if o['status'] == 'discharged')
safety = sum(1 for k in obl if k[0].endswith('.safety'))
units = [u for u in os.listdir('/verif/units') if os.path.exists(f'/verif/units/{u}/unit.json')]
nb = sum(1 for u in units if json.load(open(f'/verif/units/{u}/unit.json')).get('engine') == 'bounded')
print(f"obligation sites {len(obl)} (safety {safety}); discharged {disc}; not discharged {len(obl) - disc}; functions/fragments {len(fns)}; bounded tests {len(bounded)}; known-finding lines {len(kf)}; unit dirs {len(units)} ({len(units) - nb} Verus/Kani, {nb} bounded)")
for u in units:
    j = json.load(open(f'/verif/units/{u}/unit.json'))
    if j.get('engine') == 'bounded': print('  bounded unit', u, len(j['tests']), 'tests')
