#!/bin/bash
# usage: tools/confirm_seed.sh <id> <worktree> <outdir>
# Confirms a seeded change: demo fails with the patch, passes without it, and the unedited suite passes with it.
id=$1; wt=$2; out=$3
cd "$wt" || exit 9
export CARGO_TARGET_DIR="$wt/target" CARGO_NET_OFFLINE=true
demo=$(python3 -c "import json;print(json.load(open('$out/meta.json'))['demo_cmd'])")
demo=${demo#*&& }   # strip leading 'cd ... &&' variants
log="$out/confirm.log"; : > "$log"
run() { bash -c "cd $wt && $1" >> "$log" 2>&1; echo $?; }
git stash list > /dev/null
# normalise: start from clean tree + both diffs
git checkout -q -- . ; git clean -fdq -e target
git apply "$out/patch.diff" && git apply "$out/demo.diff" || { echo "apply failed" >> "$log"; echo "RESULT $id apply-failed"; exit 1; }
echo "=== demo WITH patch" >> "$log"; a=$(run "$demo")
git apply -R "$out/patch.diff"
echo "=== demo WITHOUT patch" >> "$log"; b=$(run "$demo")
git apply "$out/patch.diff"; git apply -R "$out/demo.diff"
echo "=== suite WITH patch (no demo)" >> "$log"; c=$(run "cargo test --offline --workspace 2>&1 | grep -E '^test result|FAILED|panicked' ; exit \${PIPESTATUS[0]}")
git apply "$out/demo.diff"
echo "RESULT $id demo_with_patch_rc=$a demo_without_patch_rc=$b suite_with_patch_rc=$c" | tee -a "$log"
