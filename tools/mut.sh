#!/bin/sh
# usage: tools/mut.sh <unit> <file-relative-to-repo> <python-expr transforming s>   (development aid)
# applies a textual mutation to a scratch copy of /repo and runs one unit on it
set -e
rm -rf /scratch/mut && mkdir -p /scratch/mut && rsync -a --exclude target --exclude .git /repo/ /scratch/mut/
python3 - "$2" "$3" <<'PY'
import sys
p='/scratch/mut/'+sys.argv[1]
s=open(p).read()
s2=eval(sys.argv[2])
assert s2!=s, "mutation did not apply"
open(p,'w').write(s2)
PY
cd /verif && VX_BUILD_DIR=/scratch/b2 bin/check --unit "$1" --repo /scratch/mut 2>&1 | cut -c1-260 | grep -v "^  vacuity\|replay=" 
