#!/usr/bin/env python3
# usage: tools/seedtable.py [seed-id ...]  -- applies every stored seeded change to a scratch copy of /repo, runs the
# property's quick check there and prints: seed | expected | outcome | red obligations      (writes notes/seedtable.md)
import glob, json, os, re, shutil, subprocess, sys
rows = []
only = set(sys.argv[1:])
for md in sorted(glob.glob('/verif/seeded/*/meta.json')):
    sid = os.path.basename(os.path.dirname(md))
    if only and sid not in only: continue
    m = json.load(open(md)); prop = m['breaks_property']
    d = '/scratch/seedtable'; shutil.rmtree(d, ignore_errors=True); os.makedirs(d)
    subprocess.check_call(['rsync', '-a', '--exclude', 'target', '--exclude', '.git', '/repo/', d + '/'])
    rc = subprocess.call(['patch', '-p1', '-s', '-i', os.path.dirname(md) + '/patch.diff'], cwd=d)
    if rc != 0:
        rows.append((sid, m.get('expected'), 'patch does not apply', [])); continue
    p = subprocess.run(['/verif/bin/check', prop, '--repo', d, '--no-evidence'], capture_output=True, text=True)
    red = sorted(set(re.findall(r'^VIOLATION property=\S+ replay=\S*/replays/C\d\d-(\S+)\.json', p.stdout, re.M)))
    und = sorted(set(re.findall(r'^UNDECIDED property=\S+ unit=(\w+)', p.stdout + p.stderr, re.M)))
    outcome = 'caught' if red else ('undecided (exit 2): ' + ','.join(und) if und else 'missed')
    rows.append((sid, m.get('expected'), outcome, red))
    print(sid, m.get('expected'), outcome, red, 'rc=%d' % p.returncode, flush=True)
    shutil.rmtree(d, ignore_errors=True)
if not only:
    with open('/verif/notes/seedtable.md', 'w') as fh:
        fh.write('| seed | expected | outcome of the quick check on the patched tree | red obligations |\n|---|---|---|---|\n')
        for r in rows: fh.write('| %s | %s | %s | %s |\n' % (r[0], r[1], r[2], ', '.join('`%s`' % x for x in r[3])))
