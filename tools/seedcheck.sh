#!/bin/bash
# usage: tools/seedcheck.sh <patch.diff> <Cxx> : applies a seeded patch to a scratch copy of /repo and runs the property's quick check on it
set -e
rm -rf /scratch/seedrun && mkdir -p /scratch/seedrun && rsync -a --exclude target --exclude .git --exclude trees /repo/ /scratch/seedrun/
P=$(realpath "$1"); (cd /scratch/seedrun && patch -p1 -s < "$P")
cd /verif && VX_BUILD_DIR=/scratch/b2 bin/check "$2" --repo /scratch/seedrun --no-evidence 2>&1 | cut -c1-260
