#!/usr/bin/env python3
# usage: tools/mkseedprompt.py <round-id e.g. r8> <Cxx> : writes /tmp/seed/<rid>-<Cxx>.prompt.txt (property text + the list of
# changes already stored under seeded/ for that property) and creates the detached scratch worktree /tmp/seed/<rid>-<Cxx>.
# Development aid for the seeding protocol of the brief; the sub-agent sees only that prompt file.
import glob, json, os, subprocess, sys
rid, prop = sys.argv[1], sys.argv[2]
tag = f"{rid}-{prop}"
p = next(json.loads(l) for l in open('/verif/properties.jsonl') if json.loads(l)['id'] == prop)
taken = []
for md in sorted(glob.glob(f'/verif/seeded/{prop}-*/meta.json')):
    taken.append(json.load(open(md))['summary'])
# changes stored for OTHER properties are listed too (shortened): the same mechanism is often reachable from several properties
if len(sys.argv) > 3 and sys.argv[3] == 'all':
    for md in sorted(glob.glob('/verif/seeded/*/meta.json')):
        if f'/{prop}-' in md: continue
        taken.append(json.load(open(md))['summary'][:260])
tmpl = open('/tmp/seed/r7-C06.prompt.txt').read() if os.path.exists('/tmp/seed/r7-C06.prompt.txt') else open('/verif/tools/seedprompt.tmpl').read()
head, rest = tmpl.split('-----\n', 1)
_, rest = rest.split('-----\n', 1)
body, tail = rest.split('ALREADY TAKEN', 1)
_, tail2 = tail.split('\nAlso write a DEMONSTRATION', 1)
intro = tail.split('\n', 1)[0]
text = (head + '-----\n' + f"{prop} — {p['title']}\n\nStatement: {p['statement']}\n\nQuantified over: {p['quantifier']['text']}\n\n" + '-----\n' + body
        + 'ALREADY TAKEN' + intro + '\n' + ''.join(f'  - {t}\n' for t in taken) + '\nAlso write a DEMONSTRATION' + tail2)
text = text.replace('r7-C06', tag).replace('"property": "C06"', f'"property": "{prop}"')
os.makedirs(f'/tmp/seed/out/{tag}', exist_ok=True)
open(f'/tmp/seed/{tag}.prompt.txt', 'w').write(text)
subprocess.check_call(['git', '-C', '/repo', 'worktree', 'add', '--detach', f'/tmp/seed/{tag}', 'HEAD'])
print('prompt', f'/tmp/seed/{tag}.prompt.txt', 'taken:', len(taken))
