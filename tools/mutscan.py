#!/usr/bin/env python3
"""tools/mutscan.py [unit ...] [--jobs N] [--max-per-extract M]
Contract-strength scan (development aid, not a registered check): for every function / fragment a Verus unit puts
under contract, generate small textual mutants of the REAL source lines of that extract, run the unit on a scratch copy
with the mutant, and report the mutants that still verify (survivors). A survivor is either an equivalent mutant or a
hole in the contracts. Output: notes/mutscan/<unit>.md"""
import concurrent.futures as cf, glob, json, os, re, shutil, subprocess, sys, hashlib

ROOT = '/verif'
REPO = '/repo'
args = sys.argv[1:]
jobs = 8; maxper = 40
units = []
i = 0
while i < len(args):
    if args[i] == '--jobs': jobs = int(args[i+1]); i += 2
    elif args[i] == '--max-per-extract': maxper = int(args[i+1]); i += 2
    else: units.append(args[i]); i += 1
if not units:
    units = sorted(os.path.basename(os.path.dirname(p)) for p in glob.glob(ROOT + '/units/*/unit.json') if json.load(open(p)).get('engine', 'verus') == 'verus')

OPS = [
    (r'==', '!='), (r'!=', '=='),
    (r'<=', '<'), (r'>=', '>'),
    (r'(?<![<=\-])<(?![=<])', '<='), (r'(?<![>=\-])>(?![=>])', '>='),
    (r'&&', '||'), (r'\|\|', '&&'),
    (r'\btrue\b', 'false'), (r'\bfalse\b', 'true'),
    (r'\bis_some\(\)', 'is_none()'), (r'\bis_none\(\)', 'is_some()'),
    (r'\bis_ok\(\)', 'is_err()'), (r'\bis_err\(\)', 'is_ok()'),
    (r'\bis_empty\(\)', 'len() > 0'),
    (r'\bsaturating_add\b', 'saturating_sub'), (r'\bsaturating_sub\b', 'saturating_add'),
    (r' \+ 1\b', ' + 2'), (r' - 1\b', ' - 2'), (r'\b0\b(?!\.)', '1'), (r'\b1\b(?!\.)', '0'),
    (r'if !', 'if '),
    (r'\.min\(', '.max('), (r'\.max\(', '.min('),
]

def mutants_for(lines, lo, hi):
    """yield (lineno, description, new_line) for source lines lo..hi (1-based, inclusive)"""
    out = []
    for ln in range(lo, hi + 1):
        t = lines[ln - 1]
        st = t.strip()
        if not st or st.startswith('//') or st.startswith('#[') or 'tracing::' in st:
            continue
        code = t.split('//')[0]
        # operator replacements, one occurrence at a time; skip generics / arrows
        for pat, rep in OPS:
            for m in re.finditer(pat, code):
                if code[:m.start()].count('"') % 2 == 1:
                    continue   # inside a string literal
                ctx = code[max(0, m.start() - 2):m.end() + 2]
                if '->' in ctx or '=>' in ctx or '::<' in ctx:
                    continue
                if pat in (r'(?<![<=\-])<(?![=<])', r'(?<![>=\-])>(?![=>])'):
                    # only when it looks like a comparison: spaces around
                    if not (code[m.start() - 1:m.start()] == ' ' and code[m.end():m.end() + 1] == ' '):
                        continue
                new = code[:m.start()] + rep + code[m.end():] + t[len(code):]
                out.append((ln, f'`{m.group(0)}` -> `{rep}`', new, ln))
        # delete a one-line statement that is a call ending in `?;` or a plain method call `;`
        if re.match(r'^\s*(self\.|Self::)?[A-Za-z_][\w\.:]*\(.*\)\??;\s*$', code) and 'let ' not in code and 'return' not in code:
            out.append((ln, 'statement deleted', t[:len(t) - len(t.lstrip())] + '();', ln))
    # field swap: `.a` -> `.b` for two field / method names that both occur in this extract ("wrong key / field")
    names = sorted(set(re.findall(r'\.([a-z_][a-z0-9_]{2,})\b(?!\s*\()', '\n'.join(l.split('//')[0] for l in lines[lo - 1:hi]))))
    CONF = [('created_at', 'processed_at'), ('last_message_at', 'last_message_processed_at'), ('image_key', 'image_nonce'), ('image_key', 'image_hash'),
            ('image_key', 'image_upload_key'), ('name', 'description'), ('mls_group_id', 'nostr_group_id'), ('id', 'wrapper_event_id'),
            ('group_name', 'group_description'), ('group_image_key', 'group_image_hash'), ('admins', 'relays'), ('applied_commit_ts', 'epoch'),
            ('message_event_id', 'wrapper_event_id'), ('epoch', 'processed_at')]
    for ln in range(lo, hi + 1):
        t = lines[ln - 1]; code = t.split('//')[0]
        if 'tracing::' in code or code.strip().startswith('#['):
            continue
        for a, b in CONF:
            for x, y in ((a, b), (b, a)):
                for m in re.finditer(r'\.' + x + r'\b(?!\s*\()', code):
                    if code[:m.start()].count('"') % 2 == 1:
                        continue
                    new = code[:m.start()] + '.' + y + code[m.end():] + t[len(code):]
                    out.append((ln, f'field `.{x}` -> `.{y}`', new, ln))
    # multi-line: (a) a call statement `self.x(..)\n   .y()?;` without a binding, (b) a guard `if c { return Err(..); }`
    ln = lo
    while ln <= hi:
        t = lines[ln - 1]; st = t.strip()
        if re.match(r'^(self\.|Self::|[a-z_][\w]*\.)', st) and not st.endswith(';') and 'let ' not in st:
            end = ln
            while end < hi and not lines[end - 1].rstrip().endswith(';') and end - ln < 8:
                end += 1
            if lines[end - 1].rstrip().endswith('?;') and end > ln:
                out.append((ln, f'statement deleted (lines {ln}-{end})', None, end))
            ln = end + 1; continue
        if st.startswith('if ') and st.endswith('{'):
            # find the closing brace at the same indent
            ind = len(t) - len(t.lstrip())
            end = ln + 1
            while end <= hi and not (lines[end - 1].startswith(' ' * ind + '}') and len(lines[end - 1]) - len(lines[end - 1].lstrip()) == ind):
                end += 1
            if end <= hi and lines[end - 1].strip() == '}':
                body = ' '.join(x.strip() for x in lines[ln:end - 1])
                if body.startswith('return Err(') and body.count('return') == 1 and end - ln <= 12:
                    out.append((ln, f'guard deleted (lines {ln}-{end}): `{st[:80]}`', None, end))
        ln += 1
    return out

def run_unit(unit, scratch, builddir):
    env = dict(os.environ, VX_BUILD_DIR=builddir)
    p = subprocess.run([ROOT + '/bin/check', '--unit', unit, '--repo', scratch, '--no-evidence'], capture_output=True, text=True, env=env, timeout=900)
    red = sorted(set(re.findall(r'^\s*FAIL (\S+)', p.stdout + p.stderr, re.M)))
    m = re.search(r'UNDECIDED[^\n]*?: (.*)', p.stdout)
    und = m.group(1)[:260] if m else ''
    return p.returncode, red, und

def work(job):
    unit, ex, ln, desc, new, end, base_red, wid = job
    scratch = f'/scratch/mutscan/w{wid}'; builddir = f'/scratch/mutscan/b{wid}'
    src = os.path.join(scratch, ex['file'])
    orig_text = open(src).read()
    orig = orig_text.split('\n')
    keep = orig[ln - 1]
    mut = list(orig)
    if new is None:
        for k in range(ln, end + 1):
            mut[k - 1] = ''
    else:
        mut[ln - 1] = new.rstrip('\n')
    open(src, 'w').write('\n'.join(mut))
    try:
        rc, red, und = run_unit(unit, scratch, builddir)
    finally:
        open(src, 'w').write(orig_text)
    red = [x for x in red if x not in base_red]
    return (unit, ex['id'], ex['file'], ln, desc, keep.strip(), (new or '').strip(), rc, red, und)

os.makedirs('/scratch/mutscan', exist_ok=True)
os.makedirs(ROOT + '/notes/mutscan', exist_ok=True)
from queue import Queue
for unit in units:
    # fresh map from a baseline run
    base_build = '/scratch/mutscan/base'
    shutil.rmtree(base_build, ignore_errors=True)
    env = dict(os.environ, VX_BUILD_DIR=base_build)
    p = subprocess.run([ROOT + '/bin/check', '--unit', unit, '--no-evidence'], capture_output=True, text=True, env=env)
    base_red = sorted(set(re.findall(r'^\s*FAIL (\S+)', p.stdout + p.stderr, re.M)))
    mp = glob.glob(f'{base_build}/{unit}/*_main.map.json')
    if not mp:
        print(unit, 'no map (baseline failed?)'); continue
    m = json.load(open(mp[0]))
    jobs_list = []
    for ex in m['extracts']:
        if ex.get('kind') in ('type',) or str(ex.get('kind', '')).startswith('signature-only'):
            continue
        lo, hi = ex['src_lines']
        lines = open(os.path.join(REPO, ex['file'])).read().split('\n')
        ms = mutants_for(lines, lo, hi)
        # deterministic thinning
        if len(ms) > maxper:
            ms = sorted(ms, key=lambda x: hashlib.sha1((str(x[0]) + x[1]).encode()).hexdigest())[:maxper]
        for (ln, desc, new, end) in ms:
            jobs_list.append((unit, ex, ln, desc, new, end, base_red))
    print(f'{unit}: {len(jobs_list)} mutants', flush=True)
    # worker dirs
    for w in range(jobs):
        d = f'/scratch/mutscan/w{w}'
        if not os.path.isdir(d):
            os.makedirs(d)
            subprocess.check_call(['rsync', '-a', '--exclude', 'target', '--exclude', '.git', REPO + '/', d + '/'])
    results = []
    import threading
    free = Queue()
    for w in range(jobs): free.put(w)
    def runner(j):
        w = free.get()
        try:
            return work(j + (w,))
        finally:
            free.put(w)
    with cf.ThreadPoolExecutor(max_workers=jobs) as ex_:
        for r in ex_.map(runner, jobs_list):
            results.append(r)
    surv = [r for r in results if r[7] == 0]
    caught = [r for r in results if r[8]]
    undec = [r for r in results if r[7] != 0 and not r[8]]
    with open(f'{ROOT}/notes/mutscan/{unit}.md', 'w') as fh:
        fh.write(f'# mutscan {unit}: {len(results)} mutants, {len(caught)} caught, {len(undec)} rejected/undecided (do not compile, anchor lost), {len(surv)} survived\n\n')
        fh.write('## survivors (equivalent mutant or contract hole)\n\n| extract | file:line | mutation | original line |\n|---|---|---|---|\n')
        for r in surv:
            fh.write(f'| {r[1]} | {r[2]}:{r[3]} | {r[4]} | `{r[5][:140]}` |\n')
        fh.write('\n## rejected / undecided mutants (reason given by the unit)\n\n| extract | file:line | mutation | reason |\n|---|---|---|---|\n')
        for r in undec:
            fh.write(f'| {r[1]} | {r[2]}:{r[3]} | {r[4]} | {str(r[9])[:220]} |\n')
    print(f'{unit}: caught={len(caught)} undecided={len(undec)} survived={len(surv)}', flush=True)
shutil.rmtree('/scratch/mutscan', ignore_errors=True)
