//! vx — mechanical extractor for the Verus-X engine (DESIGN.md §2.1).
//!
//! `vx gen --repo /repo --template units/<u>/unit.rs.tmpl --out <file.rs> --map <file.json> [--probes]`
//!
//! Reads a template. Every line that is not a `//@` directive is copied verbatim.
//! `//@extract … //@end` blocks are replaced by source text copied *by byte span* from
//! the repository's working tree, after the mechanical rewrites X1–X7 (the complete list):
//!   X1  delete `tracing::{trace,debug,info,warn,error}!` statements (expression position -> `()`)
//!   X2  desugar let-chains into nested `if` (else branch duplicated)
//!   X3  splice requires/ensures/invariant/decreases given in the template; name the return value
//!   X4  ghost-state threading: trailing `Tracked(w): Tracked<&mut World>` parameter, trailing
//!       `Tracked(w)` argument on calls of the callees listed as stateful
//!   X5  strip attributes / doc comments from extracted items
//!   X6  fragment wrapper (`frag=`; kinds stmts:a..b, ifthen:, ifexpr:, matcharm:, closure:, loop:N, loopbody:N, body): statements of the host function wrapped in a fn whose
//!       signature is given in the template
//!   X7  (nothing to do: generic impl headers are written in the template)
//!   X9  constructor used as a function value in map/map_err -> eta-expanded closure (same meaning)
//!   X8  closure parameter `_` -> `_vxN` (Verus accepts only variable binders; pure rename)
//! Exit status: 0 ok, 3 anchor not found / unparsable (the driver reports UNDECIDED).

use proc_macro2::Span;
use serde_json::{json, Value};
use std::collections::BTreeMap;
use std::fmt::Write as _;
use syn::spanned::Spanned;
use syn::visit::Visit;

type Edit = (usize, usize, String);

fn rng(s: Span) -> (usize, usize) {
    let r = s.byte_range();
    (r.start, r.end)
}

fn apply_edits(src: &str, mut edits: Vec<Edit>) -> String {
    edits.sort_by(|a, b| (b.0, b.1).cmp(&(a.0, a.1)));
    let mut out = src.to_string();
    let mut last_start = usize::MAX;
    for (s, e, r) in edits {
        assert!(e <= last_start, "overlapping edits at {}..{} (next starts {})", s, e, last_start);
        out.replace_range(s..e, &r);
        last_start = s;
    }
    out
}

#[derive(Debug)]
struct Fail(String);

fn fail<T>(m: impl Into<String>) -> Result<T, Fail> {
    Err(Fail(m.into()))
}

// ---------------------------------------------------------------------------------------------
// directive parsing

fn parse_kv(s: &str) -> BTreeMap<String, String> {
    // key=value pairs; value may be "quoted" (with \" escapes) or bare (no spaces)
    let mut m = BTreeMap::new();
    let b: Vec<char> = s.chars().collect();
    let mut i = 0;
    while i < b.len() {
        while i < b.len() && b[i].is_whitespace() {
            i += 1;
        }
        let ks = i;
        while i < b.len() && b[i] != '=' && !b[i].is_whitespace() {
            i += 1;
        }
        let key: String = b[ks..i].iter().collect();
        if key.is_empty() {
            break;
        }
        if i >= b.len() || b[i] != '=' {
            m.insert(key, "1".to_string());
            continue;
        }
        i += 1;
        let mut val = String::new();
        if i < b.len() && b[i] == '"' {
            i += 1;
            while i < b.len() && b[i] != '"' {
                if b[i] == '\\' && i + 1 < b.len() {
                    i += 1;
                }
                val.push(b[i]);
                i += 1;
            }
            i += 1;
        } else {
            while i < b.len() && !b[i].is_whitespace() {
                val.push(b[i]);
                i += 1;
            }
        }
        m.insert(key, val);
    }
    m
}

#[derive(Default, Debug)]
struct Clause {
    kind: String, // requires | ensures | invariant | decreases | invariant_except_break | ensures_loop
    label: Option<String>,
    props: String,
    loop_no: Option<usize>,
    closure_no: Option<usize>,
    text: String,
}

#[derive(Default, Debug)]
struct Extract {
    kv: BTreeMap<String, String>,
    clauses: Vec<Clause>,
    fnattrs: Vec<String>,
    tmpl_line: usize,
    closure_keys: BTreeMap<usize, String>,
}

fn parse_bracket(s: &str) -> (BTreeMap<String, String>, Option<String>, String, &str) {
    // "[loop=1;label|props] rest"  -> (opts, label, props, rest)
    let mut opts = BTreeMap::new();
    let mut label = None;
    let mut props = String::new();
    let s = s.trim_start();
    if let Some(r) = s.strip_prefix('[') {
        if let Some(end) = r.find(']') {
            let inside = &r[..end];
            let rest = &r[end + 1..];
            let (lhs, p) = match inside.split_once('|') {
                Some((a, b)) => (a, b.trim().to_string()),
                None => (inside, String::new()),
            };
            props = p;
            for part in lhs.split(';') {
                let part = part.trim();
                if part.is_empty() {
                    continue;
                }
                if let Some((k, v)) = part.split_once('=') {
                    opts.insert(k.trim().to_string(), v.trim().to_string());
                } else {
                    label = Some(part.to_string());
                }
            }
            return (opts, label, props, rest);
        }
    }
    (opts, label, props, s)
}

// ---------------------------------------------------------------------------------------------
// locating items

enum Found {
    Text { start: usize, end: usize, kind: &'static str },
}

fn type_last_ident(t: &syn::Type) -> Option<String> {
    match t {
        syn::Type::Path(p) => p.path.segments.last().map(|s| s.ident.to_string()),
        syn::Type::Reference(r) => type_last_ident(&r.elem),
        _ => None,
    }
}

fn path_last_ident(p: &syn::Path) -> Option<String> {
    p.segments.last().map(|s| s.ident.to_string())
}

thread_local! { static CUR_SRC: std::cell::RefCell<String> = std::cell::RefCell::new(String::new()); }

fn start_after_attrs(attrs: &[syn::Attribute], whole: Span) -> (usize, usize) {
    let (mut s, e) = rng(whole);
    for a in attrs {
        let (_, ae) = rng(a.span());
        if ae > s {
            s = ae;
        }
    }
    // skip the whitespace between the last attribute / doc comment and the item itself
    CUR_SRC.with(|c| {
        let src = c.borrow();
        let b = src.as_bytes();
        while s < e && s < b.len() && (b[s] as char).is_whitespace() {
            s += 1;
        }
    });
    (s, e)
}

fn locate_in_items(items: &[syn::Item], segs: &[&str], nth: &mut usize) -> Option<Found> {
    let seg = segs[0].trim();
    let (kw, name) = seg.split_once(' ').map(|(a, b)| (a.trim(), b.trim())).unwrap_or((seg, ""));
    let last = segs.len() == 1;
    for it in items {
        match (kw, it) {
            ("mod", syn::Item::Mod(m)) if m.ident == name => {
                if last {
                    let (s, e) = start_after_attrs(&m.attrs, m.span());
                    return Some(Found::Text { start: s, end: e, kind: "mod" });
                }
                if let Some((_, inner)) = &m.content {
                    if let Some(f) = locate_in_items(inner, &segs[1..], nth) {
                        return Some(f);
                    }
                }
            }
            ("impl", syn::Item::Impl(im)) => {
                // "impl TYPE" or "impl TRAIT for TYPE"
                let (want_trait, want_ty) = match name.split_once(" for ") {
                    Some((t, y)) => (Some(t.trim()), y.trim()),
                    None => (None, name),
                };
                let ty_ok = type_last_ident(&im.self_ty).map(|x| x == want_ty).unwrap_or(false);
                let tr_ok = match (&im.trait_, want_trait) {
                    (None, None) => true,
                    (Some((_, p, _)), Some(t)) => path_last_ident(p).map(|x| x == t).unwrap_or(false),
                    _ => false,
                };
                if ty_ok && tr_ok && !last {
                    let s2 = segs[1].trim();
                    let (kw2, name2) = s2.split_once(' ').map(|(a, b)| (a.trim(), b.trim())).unwrap_or((s2, ""));
                    for ii in &im.items {
                        match (kw2, ii) {
                            ("fn", syn::ImplItem::Fn(f)) if f.sig.ident == name2 => {
                                if *nth == 0 {
                                    let (s, e) = start_after_attrs(&f.attrs, f.span());
                                    return Some(Found::Text { start: s, end: e, kind: "fn" });
                                }
                                *nth -= 1;
                            }
                            ("const", syn::ImplItem::Const(c)) if c.ident == name2 => {
                                let (s, e) = start_after_attrs(&c.attrs, c.span());
                                return Some(Found::Text { start: s, end: e, kind: "const" });
                            }
                            _ => {}
                        }
                    }
                }
            }
            ("trait", syn::Item::Trait(t)) if t.ident == name && !last => {
                let s2 = segs[1].trim();
                let (kw2, name2) = s2.split_once(' ').map(|(a, b)| (a.trim(), b.trim())).unwrap_or((s2, ""));
                for ti in &t.items {
                    if let ("fn", syn::TraitItem::Fn(f)) = (kw2, ti) {
                        if f.sig.ident == name2 {
                            let (s, e) = start_after_attrs(&f.attrs, f.span());
                            return Some(Found::Text { start: s, end: e, kind: "fn" });
                        }
                    }
                }
            }
            ("fn", syn::Item::Fn(f)) if last && f.sig.ident == name => {
                let (s, e) = start_after_attrs(&f.attrs, f.span());
                return Some(Found::Text { start: s, end: e, kind: "fn" });
            }
            ("struct", syn::Item::Struct(x)) if last && x.ident == name => {
                let (s, e) = rng(x.span());
                return Some(Found::Text { start: s, end: e, kind: "type" });
            }
            ("enum", syn::Item::Enum(x)) if last && x.ident == name => {
                let (s, e) = rng(x.span());
                return Some(Found::Text { start: s, end: e, kind: "type" });
            }
            ("const", syn::Item::Const(x)) if last && x.ident == name => {
                let (s, e) = start_after_attrs(&x.attrs, x.span());
                return Some(Found::Text { start: s, end: e, kind: "const" });
            }
            ("type", syn::Item::Type(x)) if last && x.ident == name => {
                let (s, e) = start_after_attrs(&x.attrs, x.span());
                return Some(Found::Text { start: s, end: e, kind: "const" });
            }
            _ => {}
        }
    }
    None
}

// ---------------------------------------------------------------------------------------------
// X5: strip attributes from a type item

struct AttrCollector {
    spans: Vec<(usize, usize)>,
}
impl<'ast> Visit<'ast> for AttrCollector {
    fn visit_attribute(&mut self, a: &'ast syn::Attribute) {
        self.spans.push(rng(a.span()));
    }
}

fn strip_attrs_item(text: &str, pubfields: bool) -> Result<(String, usize), Fail> {
    let item: syn::Item = syn::parse_str(text).map_err(|e| Fail(format!("X5 parse: {e}")))?;
    let mut c = AttrCollector { spans: vec![] };
    c.visit_item(&item);
    let n = c.spans.len();
    let mut edits: Vec<Edit> = c.spans.into_iter().map(|(s, e)| (s, e, String::new())).collect();
    if pubfields {
        // X5: private fields are made `pub` (visibility only) so that contracts of pub fns may name them
        if let syn::Item::Struct(st) = &item {
            if matches!(st.vis, syn::Visibility::Inherited) {
                let (s, _) = rng(st.struct_token.span());
                edits.push((s, s, "pub ".to_string()));
            }
            for f in st.fields.iter() {
                if matches!(f.vis, syn::Visibility::Inherited) {
                    if let Some(id) = &f.ident {
                        let (s, _) = rng(id.span());
                        edits.push((s, s, "pub ".to_string()));
                    }
                }
            }
        }
    }
    Ok((apply_edits(text, edits), n))
}

// ---------------------------------------------------------------------------------------------
// function-level passes

fn parse_fn(text: &str) -> Result<syn::ImplItemFn, Fail> {
    syn::parse_str::<syn::ImplItemFn>(text).map_err(|e| Fail(format!("cannot parse extracted fn: {e}")))
}

// ---- X2 let-chains
fn has_let(e: &syn::Expr) -> bool {
    match e {
        syn::Expr::Let(_) => true,
        syn::Expr::Binary(b) if matches!(b.op, syn::BinOp::And(_)) => has_let(&b.left) || has_let(&b.right),
        syn::Expr::Paren(p) => has_let(&p.expr),
        _ => false,
    }
}
fn is_chain(e: &syn::Expr) -> bool {
    matches!(e, syn::Expr::Binary(b) if matches!(b.op, syn::BinOp::And(_)) && (has_let(&b.left) || has_let(&b.right)))
}
fn flatten_and<'a>(e: &'a syn::Expr, out: &mut Vec<&'a syn::Expr>) {
    match e {
        syn::Expr::Binary(b) if matches!(b.op, syn::BinOp::And(_)) && has_let(e) => {
            flatten_and(&b.left, out);
            flatten_and(&b.right, out);
        }
        _ => out.push(e),
    }
}
struct ChainFinder {
    found: Option<Edit>,
    src: String,
}
impl<'ast> Visit<'ast> for ChainFinder {
    fn visit_expr_if(&mut self, i: &'ast syn::ExprIf) {
        if self.found.is_some() {
            return;
        }
        if is_chain(&i.cond) {
            let mut conj = vec![];
            flatten_and(&i.cond, &mut conj);
            let (ts, te) = rng(i.then_branch.span());
            let then_txt = &self.src[ts..te];
            let else_txt = i.else_branch.as_ref().map(|(_, e)| {
                let (s, e2) = rng(e.span());
                self.src[s..e2].to_string()
            });
            let mut out = String::new();
            let n = conj.len();
            for (k, c) in conj.iter().enumerate() {
                let (s, e) = rng(c.span());
                let _ = write!(out, "if {} ", &self.src[s..e]);
                if k + 1 < n {
                    out.push_str("{ ");
                }
            }
            out.push_str(then_txt);
            for _ in 0..n {
                if let Some(e) = &else_txt {
                    let _ = write!(out, " else {}", e);
                }
                // close the wrapping block of the enclosing level (n-1 of them)
                out.push_str(" }");
            }
            // we emitted one "}" too many (the outermost `if` has no wrapping block)
            let out = out.trim_end().strip_suffix('}').unwrap().trim_end().to_string();
            let (s, e) = rng(i.span());
            self.found = Some((s, e, out));
            return;
        }
        syn::visit::visit_expr_if(self, i);
    }
}
fn pass_x2(mut text: String) -> Result<(String, usize), Fail> {
    let mut n = 0;
    loop {
        let f = parse_fn(&text)?;
        let mut cf = ChainFinder { found: None, src: text.clone() };
        cf.visit_impl_item_fn(&f);
        match cf.found {
            Some(e) => {
                text = apply_edits(&text, vec![e]);
                n += 1;
                if n > 200 {
                    return fail("X2 did not terminate");
                }
            }
            None => return Ok((text, n)),
        }
    }
}

// ---- X1 tracing
fn is_tracing_macro(p: &syn::Path) -> bool {
    let segs: Vec<String> = p.segments.iter().map(|s| s.ident.to_string()).collect();
    let lvl = ["trace", "debug", "info", "warn", "error"];
    match segs.len() {
        2 => segs[0] == "tracing" && lvl.contains(&segs[1].as_str()),
        _ => false,
    }
}
struct TracingFinder {
    edits: Vec<Edit>,
}
impl<'ast> Visit<'ast> for TracingFinder {
    fn visit_stmt(&mut self, s: &'ast syn::Stmt) {
        if let syn::Stmt::Macro(m) = s {
            if is_tracing_macro(&m.mac.path) {
                let (a, b) = rng(s.span());
                self.edits.push((a, b, String::new()));
                return;
            }
        }
        syn::visit::visit_stmt(self, s);
    }
    fn visit_expr(&mut self, e: &'ast syn::Expr) {
        if let syn::Expr::Macro(m) = e {
            if is_tracing_macro(&m.mac.path) {
                let (a, b) = rng(e.span());
                self.edits.push((a, b, "()".to_string()));
                return;
            }
        }
        syn::visit::visit_expr(self, e);
    }
}
fn pass_x1(text: String) -> Result<(String, usize), Fail> {
    let f = parse_fn(&text)?;
    let mut tf = TracingFinder { edits: vec![] };
    tf.visit_impl_item_fn(&f);
    let n = tf.edits.len();
    Ok((apply_edits(&text, tf.edits), n))
}

// ---- X8 closure wildcard parameters: `|_|` -> `|_vx0|` (Verus accepts only variable binders)
struct WildFinder {
    src: String,
    edits: Vec<Edit>,
    destructured: usize,
}
impl<'ast> Visit<'ast> for WildFinder {
    fn visit_expr_closure(&mut self, c: &'ast syn::ExprClosure) {
        for p in c.inputs.iter() {
            let inner = match p {
                syn::Pat::Type(t) => &*t.pat,
                other => other,
            };
            if let syn::Pat::Wild(w) = inner {
                let (s, e) = rng(w.span());
                let n = self.edits.len();
                self.edits.push((s, e, format!("_vx{}", n)));
            }
            // `|()|` -> `|_vxN: ()|`
            if let syn::Pat::Tuple(t) = inner {
                if t.elems.is_empty() && !matches!(p, syn::Pat::Type(_)) {
                    let (s, e) = rng(t.span());
                    let n = self.edits.len();
                    self.edits.push((s, e, format!("_vx{}: ()", n)));
                    continue;
                }
            }
            // a destructuring parameter `|(a, b)| body` -> `|vx_cN| { let (a, b) = vx_cN; body }` (irrefutable pattern,
            // same meaning; Verus accepts only variable binders as closure parameters)
            if matches!(inner, syn::Pat::Tuple(_) | syn::Pat::TupleStruct(_) | syn::Pat::Struct(_) | syn::Pat::Reference(_)) {
                let (s, e) = rng(inner.span());
                let n = self.destructured;
                self.destructured += 1;
                let pat_txt = self.src[s..e].to_string();
                self.edits.push((s, e, format!("vx_c{}", n)));
                let (bs, be) = rng(c.body.span());
                if let syn::Expr::Block(b) = &*c.body {
                    let (_, oe) = rng(b.block.brace_token.span.open());
                    self.edits.push((oe, oe, format!(" let {} = vx_c{};", pat_txt, n)));
                } else {
                    self.edits.push((bs, bs, format!("{{ let {} = vx_c{}; ", pat_txt, n)));
                    self.edits.push((be, be, " }".to_string()));
                }
            }
        }
        syn::visit::visit_expr_closure(self, c);
    }
}
fn pass_x8(text: String) -> Result<(String, usize), Fail> {
    let f = parse_fn(&text)?;
    let mut wf = WildFinder { src: text.clone(), edits: vec![], destructured: 0 };
    wf.visit_impl_item_fn(&f);
    let n = wf.edits.len();
    Ok((apply_edits(&text, wf.edits), n))
}

// ---- X9: a datatype constructor passed as a function value (`.map_err(Error::Storage)`) is eta-expanded
// (`.map_err(|vx_e| Error::Storage(vx_e))`): Verus has no function values for constructors; same meaning.
struct CtorArgFinder {
    src: String,
    edits: Vec<Edit>,
}
impl<'ast> Visit<'ast> for CtorArgFinder {
    fn visit_expr_method_call(&mut self, m: &'ast syn::ExprMethodCall) {
        if (m.method == "map_err" || m.method == "map") && m.args.len() == 1 {
            if let Some(syn::Expr::Path(p)) = m.args.first() {
                if p.path.segments.len() >= 2 {
                    let last = p.path.segments.last().unwrap().ident.to_string();
                    if last.chars().next().map(|c| c.is_ascii_uppercase()).unwrap_or(false) {
                        let (s, e) = rng(p.span());
                        let path_txt = self.src[s..e].to_string();
                        self.edits.push((s, e, format!("|vx_e| {}(vx_e)", path_txt)));
                    }
                }
            }
        }
        syn::visit::visit_expr_method_call(self, m);
    }
}
fn pass_x9(text: String) -> Result<(String, usize), Fail> {
    let f = parse_fn(&text)?;
    let mut cf = CtorArgFinder { src: text.clone(), edits: vec![] };
    cf.visit_impl_item_fn(&f);
    let n = cf.edits.len();
    Ok((apply_edits(&text, cf.edits), n))
}

// ---- X4 world threading
struct CallFinder<'a> {
    names: &'a [String],
    edits: Vec<Edit>,
}
impl<'a> CallFinder<'a> {
    fn add(&mut self, paren: &syn::token::Paren, nargs: usize) {
        let (_, close_end) = rng(paren.span.close());
        let pos = close_end - 1;
        let ins = if nargs == 0 { "Tracked(w)".to_string() } else { ", Tracked(w)".to_string() };
        self.edits.push((pos, pos, ins));
    }
}
impl<'a, 'ast> Visit<'ast> for CallFinder<'a> {
    fn visit_expr_method_call(&mut self, m: &'ast syn::ExprMethodCall) {
        if self.names.iter().any(|n| m.method == n.as_str()) {
            // a trailing comma in the argument list would give ", , Tracked(w)"
            let n = m.args.len();
            if m.args.trailing_punct() {
                let (_, close_end) = rng(m.paren_token.span.close());
                let pos = close_end - 1;
                self.edits.push((pos, pos, "Tracked(w)".to_string()));
            } else {
                self.add(&m.paren_token, n);
            }
        }
        syn::visit::visit_expr_method_call(self, m);
    }
    fn visit_expr_call(&mut self, c: &'ast syn::ExprCall) {
        if let syn::Expr::Path(p) = &*c.func {
            if let Some(last) = p.path.segments.last() {
                if self.names.iter().any(|n| last.ident == n.as_str()) {
                    let n = c.args.len();
                    if c.args.trailing_punct() {
                        let (_, close_end) = rng(c.paren_token.span.close());
                        let pos = close_end - 1;
                        self.edits.push((pos, pos, "Tracked(w)".to_string()));
                    } else {
                        self.add(&c.paren_token, n);
                    }
                }
            }
        }
        syn::visit::visit_expr_call(self, c);
    }
}
fn pass_x4(text: String, names: &[String], add_param: bool) -> Result<(String, usize), Fail> {
    let f = parse_fn(&text)?;
    let mut cf = CallFinder { names, edits: vec![] };
    cf.visit_block(&f.block);
    let n = cf.edits.len();
    let mut edits = cf.edits;
    if add_param {
        let (_, close_end) = rng(f.sig.paren_token.span.close());
        let pos = close_end - 1;
        let ins = if f.sig.inputs.is_empty() {
            "Tracked(w): Tracked<&mut World>".to_string()
        } else if f.sig.inputs.trailing_punct() {
            "Tracked(w): Tracked<&mut World>".to_string()
        } else {
            ", Tracked(w): Tracked<&mut World>".to_string()
        };
        edits.push((pos, pos, ins));
    }
    Ok((apply_edits(&text, edits), n))
}

// ---- X3 contracts, loops, probes
struct LoopFinder {
    // (insert position before body `{`, position right after body `{`)
    loops: Vec<(usize, usize)>,
    // for `for` loops: start of the iterator expression (to name the ghost iterator `vxit`)
    for_iter_pos: Vec<Option<usize>>,
}
impl<'ast> Visit<'ast> for LoopFinder {
    fn visit_expr_while(&mut self, w: &'ast syn::ExprWhile) {
        let (s, e) = rng(w.body.brace_token.span.open());
        self.loops.push((s, e));
        self.for_iter_pos.push(None);
        syn::visit::visit_expr_while(self, w);
    }
    fn visit_expr_for_loop(&mut self, w: &'ast syn::ExprForLoop) {
        let (s, e) = rng(w.body.brace_token.span.open());
        self.loops.push((s, e));
        self.for_iter_pos.push(Some(rng(w.expr.span()).0));
        syn::visit::visit_expr_for_loop(self, w);
    }
    fn visit_expr_loop(&mut self, w: &'ast syn::ExprLoop) {
        let (s, e) = rng(w.body.brace_token.span.open());
        self.loops.push((s, e));
        self.for_iter_pos.push(None);
        syn::visit::visit_expr_loop(self, w);
    }
    fn visit_expr_closure(&mut self, _c: &'ast syn::ExprClosure) {}
}

struct ClosureFinder {
    // (start of `|`, end of header incl. return type, body start, body end, body is block)
    closures: Vec<(usize, usize, usize, usize, bool)>,
    whole: Vec<(usize, usize)>,
}
impl<'ast> Visit<'ast> for ClosureFinder {
    fn visit_expr_closure(&mut self, c: &'ast syn::ExprClosure) {
        let (s, _) = rng(c.or1_token.span());
        let (_, mut e) = rng(c.or2_token.span());
        if let syn::ReturnType::Type(_, t) = &c.output {
            e = rng(t.span()).1;
        }
        let (bs, be) = rng(c.body.span());
        self.closures.push((s, e, bs, be, matches!(&*c.body, syn::Expr::Block(_))));
        self.whole.push(rng(c.span()));
        syn::visit::visit_expr_closure(self, c);
    }
}

fn marker(c: &Clause) -> String {
    if c.kind == "requires" && !c.props.contains("@callsite") {
        return String::new();
    }
    match &c.label {
        Some(l) => format!(" //@L[{}|{}|{}]", l, c.props.replace("@callsite", ""), if c.props.contains("@callsite") { "callsite-requires" } else { c.kind.as_str() }),
        None => String::new(),
    }
}

fn clause_block(clauses: &[&Clause], indent: &str) -> String {
    // groups by kind in Verus order
    let mut out = String::new();
    for kind in ["requires", "invariant_except_break", "invariant", "ensures", "decreases"] {
        let cs: Vec<&&Clause> = clauses.iter().filter(|c| c.kind == kind).collect();
        if cs.is_empty() {
            continue;
        }
        let _ = writeln!(out, "{indent}{kind}");
        for c in cs {
            let _ = writeln!(out, "{indent}    {},{}", c.text.trim().trim_end_matches(','), marker(c));
        }
    }
    out
}

fn pass_x3(text: String, ex: &Extract, probes: bool, probe_ctr: &mut usize) -> Result<String, Fail> {
    let f = parse_fn(&text)?;
    let mut edits: Vec<Edit> = vec![];
    // return naming
    if let Some(rn) = ex.kv.get("ret") {
        if let syn::ReturnType::Type(_, ty) = &f.sig.output {
            let (s, e) = rng(ty.span());
            edits.push((s, e, format!("({}: {})", rn, &text[s..e])));
        }
    }
    // signature contracts
    let (body_open_s, body_open_e) = rng(f.block.brace_token.span.open());
    let fn_clauses: Vec<&Clause> = ex.clauses.iter().filter(|c| c.loop_no.is_none() && c.closure_no.is_none()).collect();
    let mut sig_ins = String::new();
    if !fn_clauses.is_empty() {
        sig_ins.push('\n');
        sig_ins.push_str(&clause_block(&fn_clauses, "    "));
    }
    if !sig_ins.is_empty() {
        // where-clauses stay before the contract: insert right before the body brace
        edits.push((body_open_s, body_open_s, sig_ins));
    }
    // loops
    let mut lf = LoopFinder { loops: vec![], for_iter_pos: vec![] };
    lf.visit_block(&f.block);
    let max_loop = ex.clauses.iter().filter_map(|c| c.loop_no).max().unwrap_or(0);
    if max_loop > lf.loops.len() {
        return fail(format!("contract names loop {} but the function has {} loops", max_loop, lf.loops.len()));
    }
    for (k, (ls, le)) in lf.loops.iter().enumerate() {
        let cs: Vec<&Clause> = ex.clauses.iter().filter(|c| c.loop_no == Some(k + 1)).collect();
        if !cs.is_empty() {
            let mut cs2: Vec<Clause> = vec![];
            for c in &cs {
                cs2.push(Clause { kind: if c.kind == "ensures_loop" { "ensures".into() } else { c.kind.clone() }, label: c.label.clone(), props: c.props.clone(), loop_no: c.loop_no, closure_no: None, text: c.text.clone() });
            }
            let refs: Vec<&Clause> = cs2.iter().collect();
            edits.push((*ls, *ls, format!("\n{}        ", clause_block(&refs, "        "))));
            // a `for` loop with an invariant gets its ghost iterator named `vxit` (X3)
            if let Some(Some(ip)) = lf.for_iter_pos.get(k) {
                edits.push((*ip, *ip, "vxit: ".to_string()));
            }
        }
        if probes {
            *probe_ctr += 1;
            edits.push((*le, *le, format!(" proof {{ if vx_probe({}) {{ assert(false); }} }} /*@P[{}|loop{}]*/\n", *probe_ctr, *probe_ctr, k + 1)));
        }
    }
    // closure contracts (X3): `//@closure_sig[closure=K] |a: T| -> (r: U)` replaces the header of the K-th
    // closure (type ascriptions only), `//@ensures[closure=K;label|props] e` gives its postcondition
    let mut cf = ClosureFinder { closures: vec![], whole: vec![] };
    cf.visit_block(&f.block);
    let max_cl = ex.clauses.iter().filter_map(|c| c.closure_no).max().unwrap_or(0);
    if max_cl > cf.closures.len() {
        return fail(format!("contract names closure {} but the function has {} closures", max_cl, cf.closures.len()));
    }
    // resolve contract number -> closure position (by ordinal, or by source text if a closure_key is given)
    let mut contract_of_pos: BTreeMap<usize, usize> = BTreeMap::new();
    for kno in ex.clauses.iter().filter_map(|c| c.closure_no) {
        let pos = match ex.closure_keys.get(&kno) {
            // the key is matched, whitespace-insensitively, against the closure text preceded by up to
            // 120 bytes of context (so that `.update_proposals().all(|p| ..)` and `.filter(|p| ..)` differ)
            Some(key) => {
                let strip = |t: &str| t.chars().filter(|c| !c.is_whitespace()).collect::<String>();
                let k = strip(key);
                // among the closures whose window contains the key the SHORTEST one wins (a closure nested in
                // another one is also part of the outer one's text)
                // the key must match the closure text preceded by up to 120 bytes of context, and the match must reach INTO the
                // closure's own text (a match lying entirely in the context belongs to an earlier closure)
                cf.whole.iter().enumerate().filter(|(_, (a, b))| {
                    let mut from = a.saturating_sub(120);
                    while !text.is_char_boundary(from) { from += 1; }
                    let ctx = strip(&text[from..*a]);
                    let win = format!("{}{}", ctx, strip(&text[*a..*b]));
                    let mut start = 0usize;
                    let mut ok = false;
                    while let Some(pos) = win[start..].find(k.as_str()) {
                        let end = start + pos + k.len();
                        if end > ctx.len() { ok = true; break; }
                        start = start + pos + 1;
                        while start < win.len() && !win.is_char_boundary(start) { start += 1; }
                        if start >= win.len() { break; }
                    }
                    ok
                }).min_by_key(|(_, (a, b))| b - a).map(|(i, _)| i).ok_or(Fail(format!("closure_key {} not found: {}", kno, key)))?
            }
            None => kno - 1,
        };
        contract_of_pos.insert(pos, kno);
    }
    for (k, (hs, he, bs, be, is_block)) in cf.closures.iter().enumerate() {
        let kno = match contract_of_pos.get(&k) { Some(n) => *n, None => continue };
        let cs: Vec<&Clause> = ex.clauses.iter().filter(|c| c.closure_no == Some(kno)).collect();
        if cs.is_empty() {
            continue;
        }
        let sig = cs.iter().find(|c| c.kind == "closure_sig").ok_or(Fail(format!("closure {} has clauses but no closure_sig", k + 1)))?;
        let mut hdr = sig.text.trim().to_string();
        for kind in ["requires", "ensures"] {
            let kc: Vec<&&Clause> = cs.iter().filter(|c| c.kind == kind).collect();
            if kc.is_empty() {
                continue;
            }
            hdr.push_str(&format!("\n            {}", kind));
            for c in kc {
                hdr.push_str(&format!("\n                {},{}", c.text.trim().trim_end_matches(','), marker(c)));
            }
        }
        hdr.push_str("\n            ");
        edits.push((*hs, *he, hdr));
        if !*is_block {
            edits.push((*bs, *bs, "{ ".to_string()));
            edits.push((*be, *be, " }".to_string()));
        }
    }
    if probes {
        *probe_ctr += 1;
        edits.push((body_open_e, body_open_e, format!(" proof {{ if vx_probe({}) {{ assert(false); }} }} /*@P[{}|entry]*/\n", *probe_ctr, *probe_ctr)));
        let n = f.block.stmts.len();
        for (k, st) in f.block.stmts.iter().enumerate() {
            if k + 1 == n {
                break; // nothing after the last statement / tail expression
            }
            // only after statements that can fall through
            let (_, e) = rng(st.span());
            *probe_ctr += 1;
            edits.push((e, e, format!("\n proof {{ if vx_probe({}) {{ assert(false); }} }} /*@P[{}|after-stmt-{}]*/\n", *probe_ctr, *probe_ctr, k + 1)));
        }
        // audit mode (VX_DEEP_PROBES=1): additionally after every statement of every NESTED block that can fall through
        // (branches made unreachable by a precondition are reported too, so these are notes for a human, not verdicts)
        if std::env::var("VX_DEEP_PROBES").map(|v| v == "1").unwrap_or(false) {
            let mut dp = DeepProbeFinder { pos: vec![], depth: 0 };
            dp.visit_block(&f.block);
            for e in dp.pos {
                *probe_ctr += 1;
                edits.push((e, e, format!("\n proof {{ if vx_probe({}) {{ assert(false); }} }} /*@P[{}|deep]*/\n", *probe_ctr, *probe_ctr)));
            }
        }
    }
    Ok(apply_edits(&text, edits))
}
struct DeepProbeFinder {
    pos: Vec<usize>,
    depth: usize,
}
impl<'ast> Visit<'ast> for DeepProbeFinder {
    fn visit_expr_closure(&mut self, _c: &'ast syn::ExprClosure) {}
    fn visit_block(&mut self, b: &'ast syn::Block) {
        if self.depth > 0 {
            for st in b.stmts.iter() {
                let falls = match st {
                    syn::Stmt::Expr(e, semi) => semi.is_some() && !matches!(e, syn::Expr::Return(_) | syn::Expr::Break(_) | syn::Expr::Continue(_)),
                    syn::Stmt::Local(_) => true,
                    _ => false,
                };
                if falls {
                    let (_, e) = rng(st.span());
                    self.pos.push(e);
                }
            }
        }
        self.depth += 1;
        syn::visit::visit_block(self, b);
        self.depth -= 1;
    }
}

// ---- rename
fn pass_rename(text: String, newname: &str) -> Result<String, Fail> {
    let f = parse_fn(&text)?;
    let (s, e) = rng(f.sig.ident.span());
    Ok(apply_edits(&text, vec![(s, e, newname.to_string())]))
}

// ---------------------------------------------------------------------------------------------
// X6: fragments

struct FragFinder<'a> {
    spec: &'a str,
    src: &'a str,
    loop_ctr: usize,
    skip: usize, // `kind#N:pattern` selects the N-th match (1-based); skip = N-1 remaining
    found: Option<(usize, usize)>,
}
impl<'a> FragFinder<'a> {
    fn stmts_in(&mut self, b: &syn::Block) {
        if self.found.is_some() {
            return;
        }
        if let Some(rest) = self.spec.strip_prefix("stmts:") {
            let (from, to) = rest.split_once("..").unwrap_or((rest, ""));
            // `stmts:>prefix..` starts AFTER the statement with that prefix (robust when the first statement of
            // the range may be reordered by a change)
            let (from, after) = match from.strip_prefix('>') { Some(f) => (f, true), None => (from, false) };
            // `..<prefix` ends BEFORE the statement with that prefix (so that deleting the fragment's own last statement
            // does not lose the anchor)
            let (to, before) = match to.strip_prefix('<') { Some(t) => (t, true), None => (to, false) };
            let mut start = None;
            let mut pending_after = false;
            let mut prev_end: usize = 0;
            // prefixes are compared without white space (a statement may be laid out over several lines)
            let nows = |x: &str| x.chars().filter(|c| !c.is_whitespace()).collect::<String>();
            let from_s = nows(from);
            let to_s = nows(to);
            let (from, to) = (from_s.as_str(), to_s.as_str());
            for st in &b.stmts {
                let (s, e) = rng(st.span());
                let t_s = nows(&self.src[s..e]);
                let t = t_s.as_str();
                if pending_after && start.is_none() {
                    pending_after = false;
                    start = Some(s);
                    if to.is_empty() {
                        let (_, be) = rng(b.brace_token.span.close());
                        self.found = Some((s, be - 1));
                        return;
                    }
                } else if start.is_none() && after && t.starts_with(from) {
                    pending_after = true;
                    continue;
                }
                if start.is_none() && !after && t.starts_with(from) {
                    start = Some(s);
                    if to.is_empty() {
                        let (_, be) = rng(b.brace_token.span.close());
                        self.found = Some((s, be - 1));
                        return;
                    }
                }
                if let Some(s0) = start {
                    if !to.is_empty() && t.starts_with(to) {
                        if before {
                            if s > s0 {
                                self.found = Some((s0, prev_end));
                            }
                            return;
                        }
                        self.found = Some((s0, e));
                        return;
                    }
                }
                prev_end = e;
            }
        }
    }
}
impl<'a, 'ast> Visit<'ast> for FragFinder<'a> {
    fn visit_block(&mut self, b: &'ast syn::Block) {
        self.stmts_in(b);
        if self.found.is_none() {
            syn::visit::visit_block(self, b);
        }
    }
    fn visit_expr_if(&mut self, i: &'ast syn::ExprIf) {
        if self.found.is_some() {
            return;
        }
        if let Some(sub) = self.spec.strip_prefix("ifexpr:") {
            // the whole `if` expression (condition, then-block and else): the decision itself is under contract
            let (s, e) = rng(i.cond.span());
            if self.src[s..e].contains(sub) && { if self.skip > 0 { self.skip -= 1; false } else { true } } {
                self.found = Some(rng(i.span()));
                return;
            }
        }
        if let Some(sub) = self.spec.strip_prefix("ifthen:") {
            let (s, e) = rng(i.cond.span());
            if self.src[s..e].contains(sub) && { if self.skip > 0 { self.skip -= 1; false } else { true } } {
                let (bs, _) = rng(i.then_branch.brace_token.span.open());
                let (_, be) = rng(i.then_branch.brace_token.span.close());
                self.found = Some((bs + 1, be - 1));
                return;
            }
        }
        syn::visit::visit_expr_if(self, i);
    }
    fn visit_arm(&mut self, a: &'ast syn::Arm) {
        if self.found.is_some() {
            return;
        }
        if let Some(sub) = self.spec.strip_prefix("matcharm:") {
            let (s, e) = rng(a.pat.span());
            if self.src[s..e].contains(sub) && { if self.skip > 0 { self.skip -= 1; false } else { true } } {
                let (bs, be) = rng(a.body.span());
                self.found = Some((bs, be));
                return;
            }
        }
        syn::visit::visit_arm(self, a);
    }
    fn visit_expr_closure(&mut self, c: &'ast syn::ExprClosure) {
        if self.found.is_some() {
            return;
        }
        if let Some(sub) = self.spec.strip_prefix("closure:") {
            let (s, e) = rng(c.span());
            if self.src[s..e].contains(sub) && { if self.skip > 0 { self.skip -= 1; false } else { true } } {
                let (bs, be) = rng(c.body.span());
                self.found = Some((bs, be));
                return;
            }
        }
        syn::visit::visit_expr_closure(self, c);
    }
    fn visit_expr(&mut self, e: &'ast syn::Expr) {
        if self.found.is_some() {
            return;
        }
        if let Some(n) = self.spec.strip_prefix("loopbody:") {
            // the statements of the N-th loop's body (the loop head - what is iterated - is NOT part of the fragment)
            let body = match e { syn::Expr::While(w) => Some(&w.body), syn::Expr::ForLoop(f) => Some(&f.body), syn::Expr::Loop(l) => Some(&l.body), _ => None };
            if let Some(b) = body {
                self.loop_ctr += 1;
                if n.parse::<usize>().ok() == Some(self.loop_ctr) {
                    let (bs, _) = rng(b.brace_token.span.open());
                    let (_, be) = rng(b.brace_token.span.close());
                    self.found = Some((bs + 1, be - 1));
                    return;
                }
            }
        }
        if let Some(n) = self.spec.strip_prefix("loop:") {
            let is_loop = matches!(e, syn::Expr::While(_) | syn::Expr::ForLoop(_) | syn::Expr::Loop(_));
            if is_loop {
                self.loop_ctr += 1;
                if n.parse::<usize>().ok() == Some(self.loop_ctr) {
                    self.found = Some(rng(e.span()));
                    return;
                }
            }
        }
        syn::visit::visit_expr(self, e);
    }
}

// ---------------------------------------------------------------------------------------------

fn sha256_hex(data: &[u8]) -> String {
    // small dependency-free SHA-256 (only used to fingerprint the extracted source text)
    const K: [u32; 64] = [
        0x428a2f98, 0x71374491, 0xb5c0fbcf, 0xe9b5dba5, 0x3956c25b, 0x59f111f1, 0x923f82a4, 0xab1c5ed5, 0xd807aa98, 0x12835b01, 0x243185be, 0x550c7dc3, 0x72be5d74, 0x80deb1fe, 0x9bdc06a7, 0xc19bf174, 0xe49b69c1, 0xefbe4786, 0x0fc19dc6, 0x240ca1cc, 0x2de92c6f, 0x4a7484aa, 0x5cb0a9dc, 0x76f988da, 0x983e5152, 0xa831c66d, 0xb00327c8, 0xbf597fc7, 0xc6e00bf3, 0xd5a79147, 0x06ca6351, 0x14292967, 0x27b70a85, 0x2e1b2138, 0x4d2c6dfc, 0x53380d13, 0x650a7354, 0x766a0abb, 0x81c2c92e, 0x92722c85, 0xa2bfe8a1, 0xa81a664b, 0xc24b8b70, 0xc76c51a3, 0xd192e819, 0xd6990624, 0xf40e3585, 0x106aa070, 0x19a4c116, 0x1e376c08, 0x2748774c, 0x34b0bcb5, 0x391c0cb3, 0x4ed8aa4a, 0x5b9cca4f, 0x682e6ff3, 0x748f82ee, 0x78a5636f, 0x84c87814, 0x8cc70208, 0x90befffa, 0xa4506ceb, 0xbef9a3f7, 0xc67178f2,
    ];
    let mut h: [u32; 8] = [0x6a09e667, 0xbb67ae85, 0x3c6ef372, 0xa54ff53a, 0x510e527f, 0x9b05688c, 0x1f83d9ab, 0x5be0cd19];
    let mut msg = data.to_vec();
    let bitlen = (data.len() as u64) * 8;
    msg.push(0x80);
    while msg.len() % 64 != 56 {
        msg.push(0);
    }
    msg.extend_from_slice(&bitlen.to_be_bytes());
    for chunk in msg.chunks(64) {
        let mut w = [0u32; 64];
        for i in 0..16 {
            w[i] = u32::from_be_bytes([chunk[4 * i], chunk[4 * i + 1], chunk[4 * i + 2], chunk[4 * i + 3]]);
        }
        for i in 16..64 {
            let s0 = w[i - 15].rotate_right(7) ^ w[i - 15].rotate_right(18) ^ (w[i - 15] >> 3);
            let s1 = w[i - 2].rotate_right(17) ^ w[i - 2].rotate_right(19) ^ (w[i - 2] >> 10);
            w[i] = w[i - 16].wrapping_add(s0).wrapping_add(w[i - 7]).wrapping_add(s1);
        }
        let mut v = h;
        for i in 0..64 {
            let s1 = v[4].rotate_right(6) ^ v[4].rotate_right(11) ^ v[4].rotate_right(25);
            let ch = (v[4] & v[5]) ^ ((!v[4]) & v[6]);
            let t1 = v[7].wrapping_add(s1).wrapping_add(ch).wrapping_add(K[i]).wrapping_add(w[i]);
            let s0 = v[0].rotate_right(2) ^ v[0].rotate_right(13) ^ v[0].rotate_right(22);
            let maj = (v[0] & v[1]) ^ (v[0] & v[2]) ^ (v[1] & v[2]);
            let t2 = s0.wrapping_add(maj);
            v = [t1.wrapping_add(t2), v[0], v[1], v[2], v[3].wrapping_add(t1), v[4], v[5], v[6]];
        }
        for i in 0..8 {
            h[i] = h[i].wrapping_add(v[i]);
        }
    }
    h.iter().map(|x| format!("{:08x}", x)).collect()
}

fn line_of(src: &str, byte: usize) -> usize {
    src[..byte.min(src.len())].bytes().filter(|b| *b == b'\n').count() + 1
}

fn do_extract(repo: &str, ex: &Extract, probes: bool, probe_ctr: &mut usize) -> Result<(String, Value), Fail> {
    let file = ex.kv.get("file").ok_or(Fail("extract without file=".into()))?;
    let item = ex.kv.get("item").ok_or(Fail("extract without item=".into()))?;
    let path = format!("{}/{}", repo.trim_end_matches('/'), file);
    let src = std::fs::read_to_string(&path).map_err(|e| Fail(format!("cannot read {path}: {e}")))?;
    let ast = syn::parse_file(&src).map_err(|e| Fail(format!("cannot parse {path}: {e}")))?;
    CUR_SRC.with(|c| *c.borrow_mut() = src.clone());
    let segs: Vec<&str> = item.split("::").collect();
    let mut nth: usize = ex.kv.get("nth").and_then(|s| s.parse().ok()).unwrap_or(0);
    let found = locate_in_items(&ast.items, &segs, &mut nth).ok_or(Fail(format!("anchor not found: {file} :: {item}")))?;
    let Found::Text { start, end, kind } = found;
    let mut text = src[start..end].to_string();
    let mut src_start = start;
    let mut src_end = end;
    let mut rewrites: BTreeMap<&str, usize> = BTreeMap::new();

    if kind == "type" {
        let (t, n) = strip_attrs_item(&text, ex.kv.contains_key("pubfields"))?;
        rewrites.insert("X5", n);
        let mut out = String::new();
        if let Some(a) = ex.kv.get("attrs") {
            out.push_str(a);
            out.push('\n');
        }
        out.push_str(t.trim_start());
        let meta = json!({"id": ex.kv.get("id"), "file": file, "item": item, "kind": "type",
            "src_lines": [line_of(&src, src_start), line_of(&src, src_end)], "src_sha256": sha256_hex(src[start..end].as_bytes()),
            "rewrites": rewrites, "readded_attrs": ex.kv.get("attrs")});
        return Ok((out, meta));
    }
    if kind == "const" || kind == "mod" {
        let meta = json!({"id": ex.kv.get("id"), "file": file, "item": item, "kind": kind,
            "src_lines": [line_of(&src, src_start), line_of(&src, src_end)], "src_sha256": sha256_hex(src[start..end].as_bytes()), "rewrites": rewrites});
        return Ok((text, meta));
    }

    // fragment?
    let mut kindname = "whole-fn";
    if let Some(fr) = ex.kv.get("frag") {
        // tracing statements are removed first so that prefixes in `stmts:` are stable
        let f = parse_fn(&text)?;
        // `kind#N:pattern` -> N-th match
        let (fr_norm, skip) = match fr.split_once(':') {
            Some((k, rest)) => match k.split_once('#') {
                Some((k2, n)) => (format!("{}:{}", k2, rest), n.parse::<usize>().unwrap_or(1).saturating_sub(1)),
                None => (fr.clone(), 0),
            },
            None => (fr.clone(), 0),
        };
        let mut ff = FragFinder { spec: &fr_norm, src: &text, loop_ctr: 0, skip, found: None };
        if fr_norm == "body" {
            // the whole function body (used when the wrapper re-types parameters with shim types)
            let (bs, _) = rng(f.block.brace_token.span.open());
            let (_, be) = rng(f.block.brace_token.span.close());
            ff.found = Some((bs + 1, be - 1));
        } else {
            ff.visit_block(&f.block);
        }
        let (fs, fe) = ff.found.ok_or(Fail(format!("fragment not found: {file} :: {item} :: {fr}")))?;
        src_start = start + fs;
        src_end = start + fe;
        let frag_text = text[fs..fe].to_string();
        let name = ex.kv.get("as").ok_or(Fail("frag needs as=".into()))?;
        let params = ex.kv.get("params").cloned().unwrap_or_default();
        let rett = ex.kv.get("rettype").map(|t| format!(" -> {}", t)).unwrap_or_default();
        let generics = ex.kv.get("generics").cloned().unwrap_or_default();
        // `tail=` is ghost scaffolding that exposes locals of the fragment as the wrapper's result
        let tail = ex.kv.get("tail").cloned().unwrap_or_default();
        text = format!("fn {}{}({}){} {{\n{}\n{}\n}}", name, generics, params, rett, frag_text, tail);
        rewrites.insert("X6", 1);
        kindname = "fragment";
    } else if let Some(n) = ex.kv.get("as") {
        text = pass_rename(text, n)?;
    }
    // X10 (declared per extract): `subst="OLD=>NEW;;OLD2=>NEW2"` replaces each OLD, which must occur EXACTLY `count` times
    // (default once; `OLD=>NEW@N` for N occurrences), by NEW. Used only for calls Verus has no model of (the built-in
    // `Clone` of tuples); the replacement is a shim function whose contract states the std meaning. A missing OLD fails
    // the extraction (exit 2), so the rule cannot silently stop applying.
    if let Some(sub) = ex.kv.get("subst") {
        let mut n = 0usize;
        for pair in sub.split(";;") {
            let (old, new) = pair.split_once("=>").ok_or(Fail(format!("bad subst: {pair}")))?;
            let (new, want) = match new.rsplit_once('@') { Some((a, c)) if c.parse::<usize>().is_ok() => (a, c.parse::<usize>().unwrap()), _ => (new, 1usize) };
            let have = text.matches(old).count();
            if have != want {
                return fail(format!("subst: `{}` occurs {} times in the extract, expected {}", old, have, want));
            }
            text = text.replace(old, new);
            n += have;
        }
        rewrites.insert("X10", n);
    }
    let sha = sha256_hex(src[src_start..src_end].as_bytes());
    let sigonly = ex.kv.contains_key("sigonly");
    if sigonly {
        // contract-only callee: the real signature by span, body dropped, contract ASSUMED here
        let f = parse_fn(&text)?;
        let (bs, be) = rng(f.block.span());
        text = apply_edits(&text, vec![(bs, be, "{ unimplemented!() }".to_string())]);
        kindname = "signature-only (assumed contract)";
    }

    let (t, n2) = pass_x2(text)?;
    if n2 > 0 {
        rewrites.insert("X2", n2);
    }
    let (t, n1) = pass_x1(t)?;
    if n1 > 0 {
        rewrites.insert("X1", n1);
    }
    let (t, n8) = pass_x8(t)?;
    if n8 > 0 {
        rewrites.insert("X8", n8);
    }
    let (t, n9) = pass_x9(t)?;
    if n9 > 0 {
        rewrites.insert("X9", n9);
    }
    let mut stateful: Vec<String> = ex.kv.get("stateful").map(|s| s.split(',').map(|x| x.trim().to_string()).filter(|x| !x.is_empty()).collect()).unwrap_or_default();
    if let Some(d) = ex.kv.get("__stateful_default") {
        if ex.kv.contains_key("world") {
            stateful.extend(d.split(',').map(|x| x.trim().to_string()).filter(|x| !x.is_empty()));
        }
    }
    let world = ex.kv.contains_key("world");
    let t = if world || !stateful.is_empty() {
        let (t, n4) = pass_x4(t, &stateful, world)?;
        rewrites.insert("X4", n4 + usize::from(world));
        t
    } else {
        t
    };
    let ncl = ex.clauses.len();
    let t = if sigonly {
        // labels of an assumed contract are not obligations of this unit
        let ex2 = Extract { kv: ex.kv.clone(), clauses: ex.clauses.iter().filter(|c| c.loop_no.is_none() && c.closure_no.is_none()).map(|c| if c.kind == "requires" { Clause { kind: c.kind.clone(), label: c.label.clone(), props: format!("{}@callsite", c.props), loop_no: None, closure_no: None, text: c.text.clone() } } else { Clause { kind: c.kind.clone(), label: None, props: String::new(), loop_no: None, closure_no: None, text: c.text.clone() } }).collect(), fnattrs: vec![], tmpl_line: ex.tmpl_line, closure_keys: BTreeMap::new() };
        pass_x3(t, &ex2, false, probe_ctr)?
    } else {
        pass_x3(t, ex, probes, probe_ctr)?
    };
    if ncl > 0 || ex.kv.contains_key("ret") {
        rewrites.insert("X3", ncl);
    }
    let mut out = String::new();
    if sigonly {
        out.push_str("#[verifier::external_body]\n");
    }
    for a in &ex.fnattrs {
        out.push_str(a);
        out.push('\n');
    }
    out.push_str(&t);
    let meta = json!({"id": ex.kv.get("id"), "file": file, "item": item, "kind": kindname, "frag": ex.kv.get("frag"),
        "src_lines": [line_of(&src, src_start), line_of(&src, src_end)], "src_sha256": sha,
        "rewrites": rewrites, "props": ex.kv.get("props"), "stateful_callees": stateful, "sigonly": sigonly,
        "contract_sha256": sha256_hex(ex.clauses.iter().filter(|c| c.loop_no.is_none()).map(|c| format!("{}:{};", c.kind, c.text.trim())).collect::<String>().as_bytes())});
    Ok((out, meta))
}

fn run() -> Result<(), Fail> {
    let args: Vec<String> = std::env::args().collect();
    if args.len() >= 4 && args[1] == "locate" {
        // vx locate <file> <item path>  -> {"start":byte,"end":byte,"line":n,"end_line":n}
        let src = std::fs::read_to_string(&args[2]).map_err(|e| Fail(format!("cannot read {}: {e}", args[2])))?;
        let ast = syn::parse_file(&src).map_err(|e| Fail(format!("cannot parse {}: {e}", args[2])))?;
        CUR_SRC.with(|c| *c.borrow_mut() = src.clone());
        let segs: Vec<&str> = args[3].split("::").collect();
        let mut nth = 0usize;
        let found = locate_in_items(&ast.items, &segs, &mut nth).ok_or(Fail(format!("anchor not found: {} :: {}", args[2], args[3])))?;
        let Found::Text { start, end, kind } = found;
        println!("{}", json!({"start": start, "end": end, "line": line_of(&src, start), "end_line": line_of(&src, end), "kind": kind, "sha256": sha256_hex(src[start..end].as_bytes())}));
        return Ok(());
    }
    if args.len() < 2 || args[1] != "gen" {
        return fail("usage: vx gen --repo R --template T --out O --map M [--probes]");
    }
    let mut repo = "/repo".to_string();
    let (mut tmpl, mut out, mut map) = (String::new(), String::new(), String::new());
    let mut probes = false;
    let mut i = 2;
    while i < args.len() {
        match args[i].as_str() {
            "--repo" => { repo = args[i + 1].clone(); i += 2; }
            "--template" => { tmpl = args[i + 1].clone(); i += 2; }
            "--out" => { out = args[i + 1].clone(); i += 2; }
            "--map" => { map = args[i + 1].clone(); i += 2; }
            "--probes" => { probes = true; i += 1; }
            x => return fail(format!("unknown arg {x}")),
        }
    }
    let tmpl_dir = std::path::Path::new(&tmpl).parent().map(|p| p.to_path_buf()).unwrap_or_default();
    // expand //@include
    fn expand(path: &std::path::Path, dir: &std::path::Path, depth: usize) -> Result<Vec<String>, Fail> {
        if depth > 8 {
            return fail("include depth");
        }
        let txt = std::fs::read_to_string(path).map_err(|e| Fail(format!("cannot read {}: {e}", path.display())))?;
        let mut v = vec![];
        for l in txt.lines() {
            if let Some(r) = l.trim().strip_prefix("//@include ") {
                let p = dir.join(r.trim());
                let d = p.parent().map(|x| x.to_path_buf()).unwrap_or_default();
                v.extend(expand(&p, &d, depth + 1)?);
            } else {
                v.push(l.to_string());
            }
        }
        Ok(v)
    }
    let lines = expand(std::path::Path::new(&tmpl), &tmpl_dir, 0)?;

    let mut outbuf = String::new();
    let mut metas: Vec<Value> = vec![];
    let mut cur: Option<Extract> = None;
    let mut probe_ctr = 0usize;
    let mut probe_decl_done = false;
    let mut stateful_default = String::new();
    for (ln, l) in lines.iter().enumerate() {
        let t = l.trim();
        if let Some(d) = t.strip_prefix("//@") {
            if let Some(r) = d.strip_prefix("stateful_default ") {
                if !stateful_default.is_empty() {
                    stateful_default.push(',');
                }
                stateful_default.push_str(r.trim());
                continue;
            }
            if let Some(r) = d.strip_prefix("extract ") {
                let mut kv = parse_kv(r);
                if !stateful_default.is_empty() {
                    kv.insert("__stateful_default".to_string(), stateful_default.clone());
                }
                cur = Some(Extract { kv, clauses: vec![], fnattrs: vec![], tmpl_line: ln + 1, closure_keys: BTreeMap::new() });
                continue;
            }
            if d.trim() == "end" {
                let ex = cur.take().ok_or(Fail(format!("template line {}: //@end without extract", ln + 1)))?;
                let (text, mut meta) = do_extract(&repo, &ex, probes, &mut probe_ctr)?;
                let id = ex.kv.get("id").cloned().unwrap_or_default();
                let _ = writeln!(outbuf, "//@BEGIN[{}]", id);
                outbuf.push_str(&text);
                outbuf.push('\n');
                let _ = writeln!(outbuf, "//@END[{}]", id);
                meta["tmpl_line"] = json!(ex.tmpl_line);
                metas.push(meta);
                continue;
            }
            if d.trim() == "probe" {
                if probes {
                    probe_ctr += 1;
                    let _ = writeln!(outbuf, "    if vx_probe({}) {{ assert(false); }} /*@P[{}|lemma]*/", probe_ctr, probe_ctr);
                }
                continue;
            }
            if let Some(ex) = cur.as_mut() {
                if let Some(r) = d.strip_prefix("closure_key ") {
                    // `//@closure_key K <text>`: contract K belongs to the closure whose source contains <text>
                    let r = r.trim();
                    if let Some((k, t)) = r.split_once(' ') {
                        if let Ok(k) = k.parse::<usize>() {
                            ex.closure_keys.insert(k, t.trim().to_string());
                        }
                    }
                    continue;
                }
                if let Some(r) = d.strip_prefix("fnattr ") {
                    ex.fnattrs.push(r.trim().to_string());
                    continue;
                }
                if let Some(r) = d.strip_prefix("+") {
                    if let Some(c) = ex.clauses.last_mut() {
                        c.text.push(' ');
                        c.text.push_str(r.trim());
                    }
                    continue;
                }
                let mut matched = false;
                for kind in ["requires", "ensures_loop", "ensures", "invariant_except_break", "invariant", "decreases", "closure_sig"] {
                    if let Some(r) = d.strip_prefix(kind) {
                        if !(r.starts_with('[') || r.starts_with(' ')) {
                            continue;
                        }
                        let (opts, label, props, rest) = parse_bracket(r);
                        ex.clauses.push(Clause { kind: kind.to_string(), label, props, loop_no: opts.get("loop").and_then(|x| x.parse().ok()), closure_no: opts.get("closure").and_then(|x| x.parse().ok()), text: rest.trim().to_string() });
                        matched = true;
                        break;
                    }
                }
                if !matched {
                    return fail(format!("template line {}: unknown directive {}", ln + 1, t));
                }
                continue;
            }
            // directive-looking comment outside extract (e.g. //@lemma) is copied through
        }
        if cur.is_some() {
            return fail(format!("template line {}: text inside extract block", ln + 1));
        }
        outbuf.push_str(l);
        outbuf.push('\n');
        if !probe_decl_done && l.contains("verus!") && l.contains('{') {
            outbuf.push_str("pub uninterp spec fn vx_probe(i: int) -> bool;\n");
            probe_decl_done = true;
        }
    }
    if cur.is_some() {
        return fail("unterminated //@extract");
    }
    // scan markers
    let mut labels: Vec<Value> = vec![];
    let mut probesv: Vec<Value> = vec![];
    let mut ranges: BTreeMap<String, (usize, usize)> = BTreeMap::new();
    let mut lemmas: Vec<Value> = vec![];
    for (k, l) in outbuf.lines().enumerate() {
        let ln = k + 1;
        if let Some(p) = l.find("//@L[") {
            let r = &l[p + 5..];
            if let Some(e) = r.find(']') {
                let parts: Vec<&str> = r[..e].split('|').collect();
                labels.push(json!({"label": parts.first().unwrap_or(&"").trim(), "props": parts.get(1).unwrap_or(&"").trim(), "kind": parts.get(2).unwrap_or(&"clause").trim(), "line": ln, "text": l[..p].trim()}));
            }
        }
        if let Some(p) = l.find("/*@P[") {
            let r = &l[p + 5..];
            if let Some(e) = r.find(']') {
                let parts: Vec<&str> = r[..e].split('|').collect();
                probesv.push(json!({"n": parts[0].parse::<usize>().unwrap_or(0), "where": parts.get(1).unwrap_or(&""), "line": ln}));
            }
        }
        if let Some(r) = l.trim().strip_prefix("//@BEGIN[") {
            ranges.insert(r.trim_end_matches(']').to_string(), (ln, 0));
        }
        if let Some(r) = l.trim().strip_prefix("//@END[") {
            if let Some(x) = ranges.get_mut(r.trim_end_matches(']')) {
                x.1 = ln;
            }
        }
        if let Some(r) = l.trim().strip_prefix("//@lemma[") {
            if let Some(e) = r.find(']') {
                let parts: Vec<&str> = r[..e].split('|').collect();
                lemmas.push(json!({"label": parts[0].trim(), "props": parts.get(1).unwrap_or(&"").trim(), "line": ln}));
            }
        }
    }
    for m in metas.iter_mut() {
        if let Some(id) = m["id"].as_str() {
            if let Some((a, b)) = ranges.get(id) {
                m["gen_lines"] = json!([a, b]);
            }
        }
    }
    std::fs::write(&out, &outbuf).map_err(|e| Fail(format!("write {out}: {e}")))?;
    let mapv = json!({"template": tmpl, "repo": repo, "probes_mode": probes, "extracts": metas, "labels": labels, "lemmas": lemmas, "probes": probesv});
    std::fs::write(&map, serde_json::to_string_pretty(&mapv).unwrap()).map_err(|e| Fail(format!("write {map}: {e}")))?;
    Ok(())
}

fn main() {
    match run() {
        Ok(()) => {}
        Err(Fail(m)) => {
            eprintln!("vx: {}", m);
            println!("{}", json!({"error": m}));
            std::process::exit(3);
        }
    }
}
