// identity predicate left uninterpreted in units that use the opaque-iterator proposal shims
// (its definition over the update proposals lives in specs_ident.rs and is proved in unit authz)
pub uninterp spec fn commit_identities_unchanged(v: MlsView, c: StagedCommit, s: Sender) -> bool;
