// ---- welcome storage tables, staged welcomes, content encoding (assumed contracts) ----
//@extract id=ty.ProcessedWelcomeState file=crates/mdk-storage-traits/src/welcomes/types.rs item="enum ProcessedWelcomeState"
//@end
//@extract id=ty.WelcomeState file=crates/mdk-storage-traits/src/welcomes/types.rs item="enum WelcomeState"
//@end
//@extract id=ty.ProcessedWelcome file=crates/mdk-storage-traits/src/welcomes/types.rs item="struct ProcessedWelcome"
//@end
//@extract id=ty.Welcome file=crates/mdk-storage-traits/src/welcomes/types.rs item="struct Welcome"
//@end
//@extract id=ty.WelcomeError file=crates/mdk-storage-traits/src/welcomes/error.rs item="enum WelcomeError"
//@end
impl WelcomeError { #[verifier::external_body] pub fn to_string(&self) -> String { unimplemented!() } }
impl Clone for Welcome { #[verifier::external_body] fn clone(&self) -> (r: Self) ensures r == *self { unimplemented!() } }
impl PartialEq for WelcomeState { #[verifier::external_body] fn eq(&self, other: &Self) -> (r: bool) { unimplemented!() } }
impl vstd::std_specs::cmp::PartialEqSpecImpl for WelcomeState {
    open spec fn obeys_eq_spec() -> bool { true }
    open spec fn eq_spec(&self, other: &Self) -> bool { *self == *other }
}
impl PartialEq for ProcessedWelcomeState { #[verifier::external_body] fn eq(&self, other: &Self) -> (r: bool) { unimplemented!() } }
impl vstd::std_specs::cmp::PartialEqSpecImpl for ProcessedWelcomeState {
    open spec fn obeys_eq_spec() -> bool { true }
    open spec fn eq_spec(&self, other: &Self) -> bool { *self == *other }
}
pub mod welcome_types { pub use super::{Welcome, WelcomeState, ProcessedWelcome, ProcessedWelcomeState}; }
impl<T> Clone for BTreeSet<T> { #[verifier::external_body] fn clone(&self) -> (r: Self) ensures r == *self { unimplemented!() } }

pub enum ContentEncoding { Base64 }
impl Clone for ContentEncoding { fn clone(&self) -> (r: Self) ensures r == *self { ContentEncoding::Base64 } }
impl Copy for ContentEncoding {}
impl Default for ContentEncoding { fn default() -> (r: Self) ensures r == ContentEncoding::Base64 { ContentEncoding::Base64 } }   // the real type derives Default with #[default] Base64
#[verifier::external_body] pub struct Tag { _p: u8 }
#[verifier::external_body] pub struct TagsIter { _p: u8 }
impl TagsIter { pub uninterp spec fn src(&self) -> Tags; }
impl Tags { #[verifier::external_body] pub fn iter(&self) -> (r: TagsIter) ensures r.src() == *self { unimplemented!() } }
pub uninterp spec fn tags_encoding(t: Tags) -> Option<ContentEncoding>;
pub uninterp spec fn content_decodes(c: Seq<char>, e: ContentEncoding) -> bool;
impl ContentEncoding {
    // verified separately (unit encoding): Some only for an explicit, recognised encoding tag
    #[verifier::external_body]
    pub fn from_tags(tags: TagsIter) -> (r: Option<ContentEncoding>) ensures r == tags_encoding(tags.src()) { unimplemented!() }
    #[verifier::external_body]
    pub fn as_tag_value(&self) -> (r: &'static str) { unimplemented!() }
}
pub uninterp spec fn content_bytes(c: Seq<char>, e: ContentEncoding) -> Option<Seq<u8>>;   // util::decode_content (base64 crate: ASSUMED a function of its input)
#[verifier::external_body]
pub fn decode_content(content: &str, encoding: ContentEncoding, label: &str) -> (r: Result<(Vec<u8>, &'static str), String>)
    ensures (r is Ok) == (content_bytes(content@, encoding) is Some), r is Ok ==> r->Ok_0.0@ == content_bytes(content@, encoding)->Some_0
{ unimplemented!() }

#[verifier::external_body] pub struct StagedWelcome { _p: u8 }
#[verifier::external_body] pub struct WelcomeJoinError { _p: u8 }
pub uninterp spec fn welcome_error_to_error(e: WelcomeJoinError) -> Error;
impl From<WelcomeJoinError> for Error { #[verifier::external_body] fn from(e: WelcomeJoinError) -> (r: Error) ensures r == welcome_error_to_error(e) { unimplemented!() } }
impl vstd::std_specs::convert::FromSpecImpl<WelcomeJoinError> for Error {
    open spec fn obeys_from_spec() -> bool { true }
    open spec fn from_spec(e: WelcomeJoinError) -> Error { welcome_error_to_error(e) }
}
impl Clone for OpenMlsGroupId { #[verifier::external_body] fn clone(&self) -> (r: Self) ensures r == *self { unimplemented!() } }
impl From<OpenMlsGroupId> for GroupId {
    #[verifier::external_body]
    fn from(g: OpenMlsGroupId) -> (r: GroupId) ensures r == g.to_mdk() { unimplemented!() }
}
impl vstd::std_specs::convert::FromSpecImpl<OpenMlsGroupId> for GroupId {
    open spec fn obeys_from_spec() -> bool { true }
    open spec fn from_spec(g: OpenMlsGroupId) -> GroupId { g.to_mdk() }
}
impl GroupContext {
    pub uninterp spec fn gid(&self) -> GroupId;
    pub uninterp spec fn ep(&self) -> u64;
    #[verifier::external_body] pub fn group_id(&self) -> (r: &OpenMlsGroupId) ensures r.to_mdk() == self.gid() { unimplemented!() }
    #[verifier::external_body] pub fn epoch(&self) -> (r: GroupEpoch) ensures r.e == self.ep() { unimplemented!() }
}
#[verifier::external_body] pub struct MembersIter { _p: u8 }
impl MembersIter { #[verifier::external_body] pub fn count(self) -> (r: usize) { unimplemented!() } }
impl StagedWelcome {
    pub uninterp spec fn ctx(&self) -> GroupContext;
    pub uninterp spec fn joined_view(&self) -> MlsView;   // the MLS state the joiner gets (OpenMLS)
    #[verifier::external_body] pub fn group_context(&self) -> (r: &GroupContext) ensures *r == self.ctx() { unimplemented!() }
    #[verifier::external_body] pub fn members(&self) -> (r: MembersIter) { unimplemented!() }
    // StagedWelcome::into_group with replace_old_group(): creates (or REPLACES) the persisted MLS state of that group id
    #[verifier::external_body]
    pub fn into_group<S: MdkStorageProvider>(self, provider: &MdkProvider<S>, Tracked(w): Tracked<&mut World>) -> (r: Result<MlsGroup, WelcomeJoinError>)
        ensures r is Ok ==> r->Ok_0.view() == self.joined_view() && self.joined_view().group_id == self.ctx().gid() && self.joined_view().ext == self.ctx().ext()   // (assumed: the joiner's group data is the welcome's group context)
                    && *final(w) == (World { mls: old(w).mls.insert(self.ctx().gid(), self.joined_view()), joined: old(w).joined.push(self.ctx().gid()), ..*old(w) }),
                r is Err ==> *final(w) == *old(w),
    { unimplemented!() }
}
