// ---- std functions without a vstd specification (assumed; semantics per the std documentation) ----
pub assume_specification [core::cmp::Ordering::is_gt] (o: Ordering) -> (r: bool)
    ensures r == (o == Ordering::Greater);
pub assume_specification [core::cmp::Ordering::is_lt] (o: Ordering) -> (r: bool)
    ensures r == (o == Ordering::Less);
pub assume_specification [core::cmp::Ordering::is_ge] (o: Ordering) -> (r: bool)
    ensures r == (o != Ordering::Less);
pub assume_specification [core::cmp::Ordering::is_le] (o: Ordering) -> (r: bool)
    ensures r == (o != Ordering::Greater);
// <[T]>::to_vec: element-wise clone; assumed to yield equal elements (Clone of the element types
// involved here is derived / structural)
pub assume_specification<T: Clone> [<[T]>::to_vec] (s: &[T]) -> (r: Vec<T>)
    ensures r@ == s@;
