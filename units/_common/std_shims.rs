// ---- std functions without a vstd specification (assumed; semantics per the std documentation) ----
pub assume_specification [core::cmp::Ordering::is_gt] (o: Ordering) -> (r: bool)
    ensures r == (o == Ordering::Greater);
pub assume_specification [core::cmp::Ordering::is_lt] (o: Ordering) -> (r: bool)
    ensures r == (o == Ordering::Less);
pub assume_specification [core::cmp::Ordering::is_ge] (o: Ordering) -> (r: bool)
    ensures r == (o != Ordering::Less);
pub assume_specification [core::cmp::Ordering::is_le] (o: Ordering) -> (r: bool)
    ensures r == (o != Ordering::Greater);
// <[T]>::to_vec: element-wise clone; assumed to yield equal elements (Clone of the element types
// involved here is derived / structural)
pub assume_specification<T: Clone> [<[T]>::to_vec] (s: &[T]) -> (r: Vec<T>)
    ensures r@ == s@;
// Option combinators without a vstd specification (std semantics; closure results via call_ensures)
pub assume_specification<T, F: FnOnce() -> Option<T>> [Option::<T>::or_else] (o: Option<T>, f: F) -> (r: Option<T>)
    requires o is None ==> f.requires(()),
    ensures o is Some ==> r == o, o is None ==> f.ensures((), r);
pub assume_specification<T, E, U, F: FnOnce(T) -> Result<U, E>> [Result::<T, E>::and_then] (o: Result<T, E>, f: F) -> (r: Result<U, E>)
    requires o is Ok ==> f.requires((o->Ok_0,)),
    ensures o is Err ==> r is Err && r->Err_0 == o->Err_0, o is Ok ==> f.ensures((o->Ok_0,), r);
// `==` / `!=` on byte arrays is structural equality (vstd leaves eq_spec of arrays abstract) — ASSUMED axiom
pub mod vx_axioms {
    use vstd::prelude::*;
    use vstd::std_specs::cmp::PartialEqSpec;
    pub broadcast axiom fn axiom_u8_array_eq_spec<const N: usize>(a: [u8; N], b: [u8; N]) ensures #[trigger] a.eq_spec(&b) == (a == b);
}
broadcast use vx_axioms::axiom_u8_array_eq_spec;

// Option::is_none_or / is_some_and (std): decided through the closure's own contract
pub assume_specification<T, F: FnOnce(T) -> bool> [Option::<T>::is_none_or] (o: Option<T>, f: F) -> (r: bool)
    ensures o is None ==> r, o is Some ==> f.ensures((o->Some_0,), r);
