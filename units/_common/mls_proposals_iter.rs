// ---- proposals of a staged commit, iterators as opaque objects (variant for code that only calls
// next()/all() inside closures whose result Verus cannot see anyway)
pub struct QueuedUpdateProposal { pub up: UpdateProposal, pub snd: Sender }
impl QueuedUpdateProposal {
    pub fn update_proposal(&self) -> (r: &UpdateProposal) ensures *r == self.up { &self.up }
    pub fn sender(&self) -> (r: &Sender) ensures *r == self.snd { &self.snd }
}
#[verifier::external_body] pub struct UpIter { _p: u8 }
#[verifier::external_body] pub struct QpIter { _p: u8 }
impl UpIter {
    #[verifier::external_body] pub fn next(&mut self) -> (r: Option<&QueuedUpdateProposal>) { unimplemented!() }
}
impl QpIter {
    #[verifier::external_body] pub fn all<F: FnMut(&QueuedProposal) -> bool>(&mut self, f: F) -> (r: bool) { unimplemented!() }
}
impl StagedCommit {
    pub uninterp spec fn path_leaf(&self) -> Option<LeafNode>;
    #[verifier::external_body] pub fn update_proposals(&self) -> (r: UpIter) { unimplemented!() }
    #[verifier::external_body] pub fn queued_proposals(&self) -> (r: QpIter) { unimplemented!() }
    #[verifier::external_body]
    pub fn update_path_leaf_node(&self) -> (r: Option<&LeafNode>) ensures (r is Some) == (self.path_leaf() is Some), r is Some ==> *r->Some_0 == self.path_leaf()->Some_0 { unimplemented!() }
}
