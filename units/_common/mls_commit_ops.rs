// ---- OpenMLS commit-building API used by the admin operations (assumed). Each builder stages a
// commit (has_pending_commit) and — openmls 0.8.1 membership.rs / mls_group/mod.rs: `.build(.., |_| true)` —
// sweeps EVERY proposal of the proposal store into it. Call-site obligation taken from C05
// ("an admin's own operation changes exactly what it names and never carries out roster changes
// merely proposed by someone else"): the proposal store is empty at the call.
#[verifier::external_body] pub struct KeyPackage { _p: u8 }
#[verifier::external_body] pub struct Extension { _p: u8 }
#[verifier::external_body] pub struct Extensions { _p: u8 }
#[verifier::external_body] pub struct MlsOpError { _p: u8 }
impl MlsOpError { #[verifier::external_body] pub fn to_string(&self) -> String { unimplemented!() } }
impl Clone for Extensions { #[verifier::external_body] fn clone(&self) -> (r: Self) ensures r == *self { unimplemented!() } }
impl Clone for Member { #[verifier::external_body] fn clone(&self) -> (r: Self) ensures r == *self { unimplemented!() } }
pub uninterp spec fn mls_members(v: MlsView) -> Seq<Member>;
pub uninterp spec fn exts_with(e: Extensions, x: Extension) -> Extensions;
pub uninterp spec fn mls_extensions(v: MlsView) -> Extensions;
impl Extensions {
    #[verifier::external_body]
    pub fn add_or_replace(&mut self, x: Extension) -> (r: Result<Option<Extension>, InvalidExtensionError>)
        ensures r is Ok ==> *final(self) == exts_with(*old(self), x), r is Err ==> *final(self) == *old(self)
    { unimplemented!() }
}
impl From<InvalidExtensionError> for Error { #[verifier::external_body] fn from(e: InvalidExtensionError) -> (r: Error) ensures r == Error::InvalidExtension(e) { unimplemented!() } }
impl vstd::std_specs::convert::FromSpecImpl<InvalidExtensionError> for Error {
    open spec fn obeys_from_spec() -> bool { true }
    open spec fn from_spec(e: InvalidExtensionError) -> Error { Error::InvalidExtension(e) }
}
pub uninterp spec fn mlsop_error_to_error(e: MlsOpError) -> Error;
impl From<MlsOpError> for Error { #[verifier::external_body] fn from(e: MlsOpError) -> (r: Error) ensures r == mlsop_error_to_error(e) { unimplemented!() } }
impl vstd::std_specs::convert::FromSpecImpl<MlsOpError> for Error {
    open spec fn obeys_from_spec() -> bool { true }
    open spec fn from_spec(e: MlsOpError) -> Error { mlsop_error_to_error(e) }
}
impl MlsGroup {
    // real: an iterator over the members of the ratchet tree
    #[verifier::external_body]
    pub fn members(&self) -> (r: Vec<Member>) ensures r@ == mls_members(self.view()) { unimplemented!() }
    #[verifier::external_body]
    pub fn extensions(&self) -> (r: &Extensions) ensures *r == mls_extensions(self.view()) { unimplemented!() }
    #[verifier::external_body]
    pub fn add_members<S: MdkStorageProvider>(&mut self, provider: &MdkProvider<S>, signer: &SignatureKeyPair, key_packages: &Vec<KeyPackage>, Tracked(w): Tracked<&mut World>) -> (r: Result<(MlsMessageOut, MlsMessageOut, Option<GroupInfo>), MlsOpError>)
        requires old(self).view().pending_proposals == 0, //@L[group_ops.add_members.commit_contains_only_the_named_adds|C05|callsite-requires]
        ensures
            r is Ok ==> final(self).view() == (MlsView { has_pending_commit: true, ..old(self).view() })
                && *final(w) == (World { mls: old(w).mls.insert(old(self).view().group_id, final(self).view()), commits_created: old(w).commits_created + 1, last_added: key_packages@, ..*old(w) }),
            r is Err ==> final(self).view() == old(self).view() && *final(w) == *old(w),
    { unimplemented!() }
    #[verifier::external_body]
    pub fn remove_members<S: MdkStorageProvider>(&mut self, provider: &MdkProvider<S>, signer: &SignatureKeyPair, members: &Vec<LeafNodeIndex>, Tracked(w): Tracked<&mut World>) -> (r: Result<(MlsMessageOut, Option<MlsMessageOut>, Option<GroupInfo>), MlsOpError>)
        requires old(self).view().pending_proposals == 0, //@L[group_ops.remove_members.commit_contains_only_the_named_removes|C05|callsite-requires]
        ensures
            r is Ok ==> final(self).view() == (MlsView { has_pending_commit: true, ..old(self).view() })
                && *final(w) == (World { mls: old(w).mls.insert(old(self).view().group_id, final(self).view()), commits_created: old(w).commits_created + 1, last_removed: members@, ..*old(w) }),
            r is Err ==> final(self).view() == old(self).view() && *final(w) == *old(w),
    { unimplemented!() }
    #[verifier::external_body]
    pub fn update_group_context_extensions<S: MdkStorageProvider>(&mut self, provider: &MdkProvider<S>, extensions: Extensions, signer: &SignatureKeyPair, Tracked(w): Tracked<&mut World>) -> (r: Result<(MlsMessageOut, Option<MlsMessageOut>, Option<GroupInfo>), MlsOpError>)
        requires old(self).view().pending_proposals == 0, //@L[group_ops.update_extensions.commit_contains_only_the_extension_change|C05|callsite-requires]
        ensures
            r is Ok ==> final(self).view() == (MlsView { has_pending_commit: true, ..old(self).view() })
                && *final(w) == (World { mls: old(w).mls.insert(old(self).view().group_id, final(self).view()), commits_created: old(w).commits_created + 1, last_proposed_extensions: Some(extensions), ..*old(w) }),
            r is Err ==> final(self).view() == old(self).view() && *final(w) == *old(w),
    { unimplemented!() }
    // MlsGroup::leave_group: a Remove PROPOSAL for the own leaf is created and queued; no commit, no merge, same epoch / members / group data
    #[verifier::external_body]
    pub fn leave_group<S: MdkStorageProvider>(&mut self, provider: &MdkProvider<S>, signer: &SignatureKeyPair, Tracked(w): Tracked<&mut World>) -> (r: Result<MlsMessageOut, MlsOpError>)
        ensures
            r is Ok ==> final(self).view() == (MlsView { pending_proposals: old(self).view().pending_proposals + 1, ..old(self).view() })
                && *final(w) == (World { mls: old(w).mls.insert(old(self).view().group_id, final(self).view()), ..*old(w) }),
            r is Err ==> final(self).view() == old(self).view() && *final(w) == *old(w),
    { unimplemented!() }
    // the committer refreshes its own leaf (new signature key, same identity). Like the other builders it sweeps the
    // whole proposal store into the commit; C05: "a commit from a non-admin ... does nothing but refresh its author's
    // own key material" and "never carries out roster changes merely proposed by someone else"
    #[verifier::external_body]
    pub fn self_update_with_new_signer<S: MdkStorageProvider>(&mut self, provider: &MdkProvider<S>, old_signer: &SignatureKeyPair, new_signer: NewSignerBundle<'_>, params: LeafNodeParameters, Tracked(w): Tracked<&mut World>) -> (r: Result<CommitMessageBundle, MlsOpError>)
        requires old(self).view().pending_proposals == 0, //@L[group_ops.self_update.commit_contains_only_the_own_key_refresh|C05|callsite-requires]
        ensures
            r is Ok ==> final(self).view() == (MlsView { has_pending_commit: true, ..old(self).view() })
                && *final(w) == (World { mls: old(w).mls.insert(old(self).view().group_id, final(self).view()), commits_created: old(w).commits_created + 1, ..*old(w) }),
            r is Err ==> final(self).view() == old(self).view() && *final(w) == *old(w),
    { unimplemented!() }
}
#[verifier::external_body] pub struct NewSignerBundle<'a> { _p: &'a u8 }
#[verifier::external_body] pub struct LeafNodeParameters { _p: u8 }
#[verifier::external_body] pub struct CommitMessageBundle { _p: u8 }
impl CommitMessageBundle {
    #[verifier::external_body] pub fn commit(&self) -> (r: &MlsMessageOut) { unimplemented!() }
}
// Iterator::nth on the members() list (members() is modelled as a Vec; the real one is an iterator over the
// NON-BLANK leaves in tree order, so position k in it is NOT leaf index k once the tree has holes)
pub trait VxNth {
    type Item;
    spec fn vx_seq(&self) -> Seq<Self::Item>;
    fn nth(self, n: usize) -> (r: Option<Self::Item>) where Self: Sized
        ensures n < self.vx_seq().len() ==> r == Some(self.vx_seq()[n as int]), n >= self.vx_seq().len() ==> r is None;
}
impl VxNth for Vec<Member> {
    type Item = Member;
    open spec fn vx_seq(&self) -> Seq<Member> { self@ }
    #[verifier::external_body] fn nth(self, n: usize) -> (r: Option<Member>) { unimplemented!() }
}
impl LeafNodeIndex {
    pub fn usize(&self) -> (r: usize) ensures r == self.idx as usize { self.idx as usize }
    pub fn u32(&self) -> (r: u32) ensures r == self.idx { self.idx }
}
impl PartialEq for Credential { #[verifier::external_body] fn eq(&self, other: &Self) -> (r: bool) { unimplemented!() } }
impl vstd::std_specs::cmp::PartialEqSpecImpl for Credential {
    open spec fn obeys_eq_spec() -> bool { true }
    open spec fn eq_spec(&self, other: &Self) -> bool { *self == *other }
}
