//@include specs_noident.rs
//@include specs_ident.rs
