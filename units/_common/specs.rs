// ---- shared spec vocabulary of the orchestration contracts (definitions only, no assumptions
// except the `uninterp` functions, which stand for facts decided elsewhere or by OpenMLS) ----

// decided in unit authz (decision table of validate_commit_authorization) — uninterpreted here
pub uninterp spec fn commit_authorized(v: MlsView, c: StagedCommit, s: Sender) -> bool;
// decided in unit authz (validate_commit_identities) — uninterpreted here
pub uninterp spec fn commit_identities_unchanged(v: MlsView, c: StagedCommit, s: Sender) -> bool;

// fields of the decoded group-data extension (uninterpreted projections of ExtData)
pub uninterp spec fn ext_valid(e: ExtData) -> bool;       // NostrGroupDataExtension::from_group succeeds
pub uninterp spec fn ext_name(e: ExtData) -> String;
pub uninterp spec fn ext_description(e: ExtData) -> String;
pub uninterp spec fn ext_image_hash(e: ExtData) -> Option<[u8; 32]>;
pub uninterp spec fn ext_image_key(e: ExtData) -> Option<[u8; 32]>;
pub uninterp spec fn ext_image_nonce(e: ExtData) -> Option<[u8; 12]>;
pub uninterp spec fn ext_admins(e: ExtData) -> BTreeSet<PublicKey>;
pub uninterp spec fn ext_nostr_group_id(e: ExtData) -> [u8; 32];
pub uninterp spec fn ext_relays(e: ExtData) -> BTreeSet<RelayUrl>;

pub open spec fn opt_secret_is<T>(s: Option<Secret<T>>, v: Option<T>) -> bool {
    (s is Some) == (v is Some) && (s is Some ==> s->Some_0.val() == v->Some_0)
}

// C08: the stored record mirrors the MLS state
pub open spec fn record_mirrors(g: Group, v: MlsView) -> bool {
    g.epoch == v.epoch
    && g.name == ext_name(v.ext) && g.description == ext_description(v.ext)
    && g.image_hash == ext_image_hash(v.ext)
    && opt_secret_is(g.image_key, ext_image_key(v.ext))
    && opt_secret_is(g.image_nonce, ext_image_nonce(v.ext))
    && g.admin_pubkeys == ext_admins(v.ext)
    && g.nostr_group_id == ext_nostr_group_id(v.ext)
}
pub open spec fn group_mirrors_mls(w: World, g: GroupId) -> bool {
    w.groups.contains_key(g) && w.mls.contains_key(g) && record_mirrors(w.groups[g], w.mls[g])
    && w.relays.contains_key(g) && w.relays[g] == ext_relays(w.mls[g].ext)
}
