// ---- assumed model of the `nostr` / std types the extracted bodies touch (trusted base) ----
// Timestamp: nostr::Timestamp is a u64 newtype with derived (integer) Ord.
#[derive(Clone, Copy)]
pub struct Timestamp { pub secs: u64 }
impl PartialEq for Timestamp { fn eq(&self, other: &Self) -> (r: bool) { self.secs == other.secs } }
impl Eq for Timestamp {}
impl vstd::std_specs::cmp::PartialEqSpecImpl for Timestamp {
    open spec fn obeys_eq_spec() -> bool { true }
    open spec fn eq_spec(&self, other: &Self) -> bool { self.secs == other.secs }
}
impl PartialOrd for Timestamp {
    fn partial_cmp(&self, other: &Self) -> (r: Option<Ordering>) {
        if self.secs < other.secs { Some(Ordering::Less) } else if self.secs == other.secs { Some(Ordering::Equal) } else { Some(Ordering::Greater) }
    }
}
impl vstd::std_specs::cmp::PartialOrdSpecImpl for Timestamp {
    open spec fn obeys_partial_cmp_spec() -> bool { true }
    open spec fn partial_cmp_spec(&self, other: &Self) -> Option<Ordering> {
        if self.secs < other.secs { Some(Ordering::Less) } else if self.secs == other.secs { Some(Ordering::Equal) } else { Some(Ordering::Greater) }
    }
}
impl Timestamp {
    pub fn as_secs(&self) -> (r: u64) ensures r == self.secs { self.secs }
    pub fn as_u64(&self) -> (r: u64) ensures r == self.secs { self.secs }
    pub fn from_secs(s: u64) -> (r: Timestamp) ensures r.secs == s { Timestamp { secs: s } }
    // an arbitrary clock reading (marked as such so that contracts can quantify over "some reading")
    #[verifier::external_body]
    pub fn now() -> (r: Timestamp) ensures is_clock_reading(r.secs) { unimplemented!() }
}
pub uninterp spec fn is_clock_reading(t: u64) -> bool;

// lexicographic order on byte strings of equal length (EventId / PublicKey derive Ord on [u8; 32])
pub open spec fn lex_lt(a: Seq<u8>, b: Seq<u8>) -> bool
    decreases a.len()
{
    if a.len() == 0 || b.len() == 0 { false }
    else if a[0] != b[0] { a[0] < b[0] }
    else { lex_lt(a.subrange(1, a.len() as int), b.subrange(1, b.len() as int)) }
}
pub open spec fn lex_cmp(a: Seq<u8>, b: Seq<u8>) -> Ordering {
    if lex_lt(a, b) { Ordering::Less } else if lex_lt(b, a) { Ordering::Greater } else { Ordering::Equal }
}

#[derive(Clone, Copy)]
pub struct EventId { pub bytes: [u8; 32] }
#[derive(Clone, Copy)]
pub struct PublicKey { pub bytes: [u8; 32] }

// nostr::Kind: an event kind number; nostr compares kinds by their u16 code (Custom(445) == MlsGroupMessage)
pub struct Kind { pub code: u16 }
#[allow(non_upper_case_globals)]
impl Kind {
    pub const MlsKeyPackage: Kind = Kind { code: 443 };
    pub const MlsWelcome: Kind = Kind { code: 444 };
    pub const MlsGroupMessage: Kind = Kind { code: 445 };
    pub fn as_u16(&self) -> (r: u16) ensures r == self.code { self.code }
}
impl PartialEq for Kind { fn eq(&self, other: &Self) -> (r: bool) { self.code == other.code } }
impl vstd::std_specs::cmp::PartialEqSpecImpl for Kind {
    open spec fn obeys_eq_spec() -> bool { true }
    open spec fn eq_spec(&self, other: &Self) -> bool { self.code == other.code }
}
#[verifier::external_body]
pub struct Tags { _p: u8 }
// nostr::UnsignedEvent: public fields as in nostr 0.44
pub struct UnsignedEvent {
    pub id: Option<EventId>,
    pub pubkey: PublicKey,
    pub created_at: Timestamp,
    pub kind: Kind,
    pub tags: Tags,
    pub content: String,
}
// NIP-01 event id: sha256 of the canonical serialisation of (pubkey, created_at, kind, tags, content) — uninterpreted
pub uninterp spec fn nip01_id(pubkey: PublicKey, created_at: Timestamp, kind: Kind, tags: Tags, content: String) -> EventId;
pub open spec fn rumor_hash(u: UnsignedEvent) -> EventId { nip01_id(u.pubkey, u.created_at, u.kind, u.tags, u.content) }
impl UnsignedEvent {
    // nostr 0.44 unsigned.rs: returns the pre-set id if there is one, else computes and stores it
    #[verifier::external_body]
    pub fn id(&mut self) -> (r: EventId)
        ensures r == (match old(self).id { Some(i) => i, None => rumor_hash(*old(self)) }),
                *final(self) == (UnsignedEvent { id: Some(r), ..*old(self) }),
    { unimplemented!() }
    #[verifier::external_body]
    pub fn ensure_id(&mut self)
        ensures *final(self) == (UnsignedEvent { id: Some(match old(self).id { Some(i) => i, None => rumor_hash(*old(self)) }), ..*old(self) }),
    { unimplemented!() }
}
impl Clone for UnsignedEvent { #[verifier::external_body] fn clone(&self) -> (r: Self) ensures r == *self { unimplemented!() } }
impl Clone for Tags { #[verifier::external_body] fn clone(&self) -> (r: Self) ensures r == *self { unimplemented!() } }
impl Clone for Kind { fn clone(&self) -> (r: Self) ensures r == *self { Kind { code: self.code } } }
impl Copy for Kind {}
#[verifier::external_body]
pub struct RelayUrl { _p: u8 }
