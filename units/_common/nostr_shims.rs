// ---- assumed model of the `nostr` / std types the extracted bodies touch (trusted base) ----
// Timestamp: nostr::Timestamp is a u64 newtype with derived (integer) Ord.
#[derive(Clone, Copy)]
pub struct Timestamp { pub secs: u64 }
impl PartialEq for Timestamp { fn eq(&self, other: &Self) -> (r: bool) { self.secs == other.secs } }
impl Eq for Timestamp {}
impl vstd::std_specs::cmp::PartialEqSpecImpl for Timestamp {
    open spec fn obeys_eq_spec() -> bool { true }
    open spec fn eq_spec(&self, other: &Self) -> bool { self.secs == other.secs }
}
impl PartialOrd for Timestamp {
    fn partial_cmp(&self, other: &Self) -> (r: Option<Ordering>) {
        if self.secs < other.secs { Some(Ordering::Less) } else if self.secs == other.secs { Some(Ordering::Equal) } else { Some(Ordering::Greater) }
    }
}
impl vstd::std_specs::cmp::PartialOrdSpecImpl for Timestamp {
    open spec fn obeys_partial_cmp_spec() -> bool { true }
    open spec fn partial_cmp_spec(&self, other: &Self) -> Option<Ordering> {
        if self.secs < other.secs { Some(Ordering::Less) } else if self.secs == other.secs { Some(Ordering::Equal) } else { Some(Ordering::Greater) }
    }
}
impl Timestamp {
    pub fn as_secs(&self) -> (r: u64) ensures r == self.secs { self.secs }
    pub fn as_u64(&self) -> (r: u64) ensures r == self.secs { self.secs }
    pub fn from_secs(s: u64) -> (r: Timestamp) ensures r.secs == s { Timestamp { secs: s } }
    #[verifier::external_body]
    pub fn now() -> (r: Timestamp) { unimplemented!() }
}

// lexicographic order on byte strings of equal length (EventId / PublicKey derive Ord on [u8; 32])
pub open spec fn lex_lt(a: Seq<u8>, b: Seq<u8>) -> bool
    decreases a.len()
{
    if a.len() == 0 || b.len() == 0 { false }
    else if a[0] != b[0] { a[0] < b[0] }
    else { lex_lt(a.subrange(1, a.len() as int), b.subrange(1, b.len() as int)) }
}
pub open spec fn lex_cmp(a: Seq<u8>, b: Seq<u8>) -> Ordering {
    if lex_lt(a, b) { Ordering::Less } else if lex_lt(b, a) { Ordering::Greater } else { Ordering::Equal }
}

#[derive(Clone, Copy)]
pub struct EventId { pub bytes: [u8; 32] }
#[derive(Clone, Copy)]
pub struct PublicKey { pub bytes: [u8; 32] }

#[verifier::external_body]
pub struct Kind { _p: u16 }
#[verifier::external_body]
pub struct Tags { _p: u8 }
#[verifier::external_body]
pub struct UnsignedEvent { _p: u8 }
#[verifier::external_body]
pub struct RelayUrl { _p: u8 }
