// ---- proposals of a staged commit, iterators modelled as slices (variant for `for` loops)
pub struct QueuedUpdateProposal { pub up: UpdateProposal, pub snd: Sender }
impl QueuedUpdateProposal {
    pub fn update_proposal(&self) -> (r: &UpdateProposal) ensures *r == self.up { &self.up }
    pub fn sender(&self) -> (r: &Sender) ensures *r == self.snd { &self.snd }
}
impl StagedCommit {
    pub uninterp spec fn ups(&self) -> Seq<QueuedUpdateProposal>;
    pub uninterp spec fn path_leaf(&self) -> Option<LeafNode>;
    // real: an iterator over the queued Update proposals
    #[verifier::external_body]
    pub fn update_proposals(&self) -> (r: &Vec<QueuedUpdateProposal>) ensures r@ == self.ups() { unimplemented!() }
    #[verifier::external_body]
    pub fn update_path_leaf_node(&self) -> (r: Option<&LeafNode>) ensures (r is Some) == (self.path_leaf() is Some), r is Some ==> *r->Some_0 == self.path_leaf()->Some_0 { unimplemented!() }
}

