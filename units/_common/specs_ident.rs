// C05 "no accepted commit or proposal changes the Nostr identity bound to an existing member"
pub open spec fn proposal_identity_unchanged(v: MlsView, p: Proposal, s: Sender) -> bool {
    (p is Update && s is Member && mls_member_exists(v, s->Member_0)) ==>
        (member_identity(v, s->Member_0) is Some && leaf_identity(p->Update_0.leaf) == member_identity(v, s->Member_0))
}
pub open spec fn commit_identities_unchanged(v: MlsView, c: StagedCommit, s: Sender) -> bool {
    (forall|k: int| 0 <= k < c.ups().len() ==> #[trigger] proposal_identity_unchanged(v, Proposal::Update(Box::new(c.ups()[k].up)), c.ups()[k].snd))
    && ((c.path_leaf() is Some && s is Member && mls_member_exists(v, s->Member_0)) ==>
        (member_identity(v, s->Member_0) is Some && leaf_identity(c.path_leaf()->Some_0) == member_identity(v, s->Member_0)))
}

