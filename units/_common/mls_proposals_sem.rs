// ---- proposals of a staged commit, iterators as shim types whose inherent next / all / filter carry
// the std Iterator semantics (variant for is_pure_self_update_commit, whose result IS the property)
pub struct QueuedUpdateProposal { pub up: UpdateProposal, pub snd: Sender }
impl QueuedUpdateProposal {
    pub fn update_proposal(&self) -> (r: &UpdateProposal) ensures *r == self.up { &self.up }
    pub fn sender(&self) -> (r: &Sender) ensures *r == self.snd { &self.snd }
}
pub struct UpIter { pub v: Vec<QueuedUpdateProposal>, pub pos: usize }
pub struct QpIter { pub v: Vec<QueuedProposal>, pub pos: usize }
impl UpIter {
    pub open spec fn rest(&self) -> Seq<QueuedUpdateProposal> { self.v@.subrange(self.pos as int, self.v@.len() as int) }
    #[verifier::external_body]
    pub fn next(&mut self) -> (r: Option<&QueuedUpdateProposal>)
        requires old(self).pos <= old(self).v@.len()
        ensures (r is Some) == (old(self).pos < old(self).v@.len()), r is Some ==> *r->Some_0 == old(self).v@[old(self).pos as int]
    { unimplemented!() }
    // Iterator::all: true iff the closure answers true on every remaining item (closure must be total and deterministic: it has a contract)
    #[verifier::external_body]
    pub fn all<F: FnMut(&QueuedUpdateProposal) -> bool>(&mut self, f: F) -> (r: bool)
        requires old(self).pos <= old(self).v@.len(), forall|k: int| old(self).pos <= k < old(self).v@.len() ==> f.requires((&#[trigger] old(self).v@[k],))
        ensures r ==> (forall|k: int| old(self).pos <= k < old(self).v@.len() ==> f.ensures((&#[trigger] old(self).v@[k],), true)),
                !r ==> (exists|k: int| old(self).pos <= k < old(self).v@.len() && f.ensures((&#[trigger] old(self).v@[k],), false))
    { unimplemented!() }
}
impl QpIter {
    #[verifier::external_body]
    pub fn all<F: FnMut(&QueuedProposal) -> bool>(&mut self, f: F) -> (r: bool)
        requires old(self).pos <= old(self).v@.len(), forall|k: int| old(self).pos <= k < old(self).v@.len() ==> f.requires((&#[trigger] old(self).v@[k],))
        ensures r ==> (forall|k: int| old(self).pos <= k < old(self).v@.len() ==> f.ensures((&#[trigger] old(self).v@[k],), true)),
                !r ==> (exists|k: int| old(self).pos <= k < old(self).v@.len() && f.ensures((&#[trigger] old(self).v@[k],), false))
    { unimplemented!() }
    // Iterator::filter: keeps exactly the items the closure accepts, in order (modelled only as far as needed: the kept set)
    #[verifier::external_body]
    pub fn filter<F: FnMut(&&QueuedProposal) -> bool>(self, f: F) -> (r: QpIter)
        ensures r.pos == 0, forall|k: int| 0 <= k < r.v@.len() ==> self.v@.contains(#[trigger] r.v@[k])
    { unimplemented!() }
}
impl StagedCommit {
    pub uninterp spec fn ups(&self) -> Seq<QueuedUpdateProposal>;
    pub uninterp spec fn path_leaf(&self) -> Option<LeafNode>;
    #[verifier::external_body] pub fn update_proposals(&self) -> (r: UpIter) ensures r.v@ == self.ups(), r.pos == 0 { unimplemented!() }
    #[verifier::external_body] pub fn queued_proposals(&self) -> (r: QpIter) ensures r.v@ == self.qps(), r.pos == 0 { unimplemented!() }
    #[verifier::external_body]
    pub fn update_path_leaf_node(&self) -> (r: Option<&LeafNode>) ensures (r is Some) == (self.path_leaf() is Some), r is Some ==> *r->Some_0 == self.path_leaf()->Some_0 { unimplemented!() }
}
// C05: "a commit from a non-admin is accepted only if it does nothing but refresh its author's own key material"
pub open spec fn pure_self_update_def(c: StagedCommit, i: LeafNodeIndex) -> bool {
    (c.path_leaf() is Some || c.ups().len() > 0)
    && (forall|k: int| 0 <= k < c.qps().len() ==> (#[trigger] c.qps()[k]).prop() is Update)
    && (forall|k: int| 0 <= k < c.ups().len() ==> (#[trigger] c.ups()[k]).snd == Sender::Member(i))
}
// MIP-02 bookkeeping: the own commit "was a self-update" (clears the post-join obligation to rotate the key) iff it
// carries an update signal and nothing but Update proposals
pub open spec fn own_commit_is_self_update(c: StagedCommit) -> bool {
    (c.path_leaf() is Some || c.ups().len() > 0)
    && (forall|k: int| 0 <= k < c.qps().len() ==> (#[trigger] c.qps()[k]).prop() is Update)
}
