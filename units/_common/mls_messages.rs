// ---- OpenMLS message processing API (assumed) ----
#[verifier::external_body] pub struct MlsMessageIn { _p: u8 }
#[verifier::external_body] pub struct ProtocolMessage { _p: u8 }
#[verifier::external_body] pub struct ProtocolMessageError { _p: u8 }
#[derive(Clone, Copy)]
pub enum ContentType { Application, Proposal, Commit }
impl PartialEq for ContentType { #[verifier::external_body] fn eq(&self, other: &Self) -> (r: bool) { unimplemented!() } }
impl vstd::std_specs::cmp::PartialEqSpecImpl for ContentType {
    open spec fn obeys_eq_spec() -> bool { true }
    open spec fn eq_spec(&self, other: &Self) -> bool { *self == *other }
}
impl PartialEq for OpenMlsGroupId { #[verifier::external_body] fn eq(&self, other: &Self) -> (r: bool) { unimplemented!() } }
impl vstd::std_specs::cmp::PartialEqSpecImpl for OpenMlsGroupId {
    open spec fn obeys_eq_spec() -> bool { true }
    open spec fn eq_spec(&self, other: &Self) -> bool { self.to_mdk() == other.to_mdk() }
}
pub enum ValidationError { WrongEpoch, CannotDecryptOwnMessage, Other }
pub enum ProcessMessageError { ValidationError(ValidationError), Other }
// TLS decoding of the MLS message (uninterpreted)
pub uninterp spec fn mls_bytes_decode_ok(b: Seq<u8>) -> bool;      // both decoding steps succeed
pub uninterp spec fn mls_bytes_content_type(b: Seq<u8>) -> ContentType;
pub uninterp spec fn mls_bytes_group_id(b: Seq<u8>) -> GroupId;
pub uninterp spec fn mls_is_own_message(v: MlsView, m: ProtocolMessage) -> bool;
pub uninterp spec fn pending_staged(v: MlsView) -> StagedCommit;   // the own commit that is staged and not yet merged
pub uninterp spec fn mls_bytes_protocol_message(b: Seq<u8>) -> ProtocolMessage;          // the group the MLS message names
impl MlsMessageIn {
    pub uninterp spec fn src(&self) -> Seq<u8>;
    #[verifier::external_body]
    pub fn tls_deserialize_exact(bytes: &[u8]) -> (r: Result<MlsMessageIn, tls_codec::Error>)
        ensures r is Ok ==> r->Ok_0.src() == bytes@, r is Err ==> !mls_bytes_decode_ok(bytes@)
    { unimplemented!() }
    #[verifier::external_body]
    pub fn try_into_protocol_message(self) -> (r: Result<ProtocolMessage, ProtocolMessageError>)
        ensures r is Ok ==> r->Ok_0.ct() == mls_bytes_content_type(self.src()) && r->Ok_0.gid() == mls_bytes_group_id(self.src()) && r->Ok_0 == mls_bytes_protocol_message(self.src()), r is Err ==> !mls_bytes_decode_ok(self.src())
    { unimplemented!() }
}
impl ProtocolMessage {
    pub uninterp spec fn gid(&self) -> GroupId;
    pub uninterp spec fn ep(&self) -> u64;
    pub uninterp spec fn ct(&self) -> ContentType;
    #[verifier::external_body] pub fn group_id(&self) -> (r: &OpenMlsGroupId) ensures r.to_mdk() == self.gid() { unimplemented!() }
    #[verifier::external_body] pub fn epoch(&self) -> (r: GroupEpoch) ensures r.e == self.ep() { unimplemented!() }
    #[verifier::external_body] pub fn content_type(&self) -> (r: ContentType) ensures r == self.ct() { unimplemented!() }
}
impl From<tls_codec::Error> for Error { #[verifier::external_body] fn from(e: tls_codec::Error) -> (r: Error) ensures r == Error::Tls(e) { unimplemented!() } }
impl vstd::std_specs::convert::FromSpecImpl<tls_codec::Error> for Error {
    open spec fn obeys_from_spec() -> bool { true }
    open spec fn from_spec(e: tls_codec::Error) -> Error { Error::Tls(e) }
}
pub uninterp spec fn protocol_error_to_error(e: ProtocolMessageError) -> Error;
impl From<ProtocolMessageError> for Error { #[verifier::external_body] fn from(e: ProtocolMessageError) -> (r: Error) ensures r == protocol_error_to_error(e), r is ProtocolMessage { unimplemented!() } }
impl vstd::std_specs::convert::FromSpecImpl<ProtocolMessageError> for Error {
    open spec fn obeys_from_spec() -> bool { true }
    open spec fn from_spec(e: ProtocolMessageError) -> Error { protocol_error_to_error(e) }
}
// error.rs `impl From<ProcessMessageError<T>> for Error`: never yields the variants that mdk reserves
// for its own control flow (assumed from reading the match in error.rs)
pub uninterp spec fn process_error_to_error(e: ProcessMessageError) -> Error;
impl From<ProcessMessageError> for Error { #[verifier::external_body] fn from(e: ProcessMessageError) -> (r: Error) ensures r == process_error_to_error(e), !(r is OwnCommitPending), !(r is CommitFromNonAdmin), !(r is ProcessMessageWrongEpoch) { unimplemented!() } }
impl vstd::std_specs::convert::FromSpecImpl<ProcessMessageError> for Error {
    open spec fn obeys_from_spec() -> bool { true }
    open spec fn from_spec(e: ProcessMessageError) -> Error { process_error_to_error(e) }
}

pub mod openmls_types {
    use super::*;
    #[verifier::external_body] pub struct ProcessedMessage { _p: u8 }   // openmls::prelude::ProcessedMessage
    pub enum ProcessedMessageContent {
        ApplicationMessage(ApplicationMessage),
        ProposalMessage(Box<QueuedProposal>),
        ExternalJoinProposalMessage(Box<QueuedProposal>),
        StagedCommitMessage(Box<StagedCommit>),
    }
    // the MLS-authenticated sender / credential of a staged commit resp. application message (facts
    // about the OpenMLS objects, uninterpreted)
    pub uninterp spec fn staged_commit_sender(c: StagedCommit) -> Sender;
    pub uninterp spec fn app_message_credential(a: ApplicationMessage) -> Credential;
    // the epoch an application message was sent in (the epoch its keys, and the exporter secret its media
    // is encrypted under, belong to) -- may be older than the receiver's current epoch (late delivery)
    pub uninterp spec fn app_message_epoch(a: ApplicationMessage) -> u64;
    impl Clone for Sender { #[verifier::external_body] fn clone(&self) -> (r: Self) ensures r == *self { unimplemented!() } }
    impl ProcessedMessage {
        pub uninterp spec fn snd(&self) -> Sender;
        pub uninterp spec fn cred(&self) -> Credential;
        pub uninterp spec fn content(&self) -> ProcessedMessageContent;
        pub uninterp spec fn ep(&self) -> u64;
        #[verifier::external_body] pub fn epoch(&self) -> (r: GroupEpoch) ensures r.e == self.ep() { unimplemented!() }
        #[verifier::external_body] pub fn sender(&self) -> (r: &Sender) ensures *r == self.snd() { unimplemented!() }
        #[verifier::external_body] pub fn credential(&self) -> (r: &Credential) ensures *r == self.cred() { unimplemented!() }
        // assumed OpenMLS fact: sender()/credential() of a processed message are those of its content
        #[verifier::external_body] pub fn into_content(self) -> (r: ProcessedMessageContent)
            ensures r == self.content(),
                    r is StagedCommitMessage ==> staged_commit_sender(*r->StagedCommitMessage_0) == self.snd(),
                    r is ApplicationMessage ==> app_message_credential(r->ApplicationMessage_0) == self.cred(),
                    r is ApplicationMessage ==> app_message_epoch(r->ApplicationMessage_0) == self.ep(),
        { unimplemented!() }
    }
}
pub use openmls_types::{ProcessedMessageContent, staged_commit_sender, app_message_credential, app_message_epoch};
impl MlsGroup {
    // decrypts / verifies one protocol message; the abstract view is unchanged (ratchet state not modelled)
    #[verifier::external_body]
    pub fn process_message<S: MdkStorageProvider>(&mut self, provider: &MdkProvider<S>, m: ProtocolMessage) -> (r: Result<openmls_types::ProcessedMessage, ProcessMessageError>)
        ensures final(self).view() == old(self).view(),
                r is Ok ==> r->Ok_0.ep() == m.ep(),   // assumed OpenMLS fact: a processed message carries the epoch of its protocol message
                // "this is a message I sent myself" is a fact about the message and the group (uninterpreted)
                (r is Err && r->Err_0 == ProcessMessageError::ValidationError(ValidationError::CannotDecryptOwnMessage)) == mls_is_own_message(old(self).view(), m),
    { unimplemented!() }
    #[verifier::external_body]
    pub fn pending_commit(&self) -> (r: Option<&StagedCommit>) ensures (r is Some) == self.view().has_pending_commit, r is Some ==> *r->Some_0 == pending_staged(self.view()) { unimplemented!() }
    // merge of the own pending commit. Call-site obligation: a rollback snapshot of this group/epoch exists (C01)
    #[verifier::external_body]
    pub fn merge_pending_commit<S: MdkStorageProvider>(&mut self, provider: &MdkProvider<S>, Tracked(w): Tracked<&mut World>) -> (r: Result<(), MergeCommitError>)
        requires
            old(w).snapshot_for is Some && old(w).snapshot_for->Some_0.group == old(self).view().group_id && old(w).snapshot_for->Some_0.epoch == old(self).view().epoch, //@L[commit_flow.merge_pending_requires_snapshot|C01|callsite-requires]
        ensures
            r is Ok ==> final(self).view() == MlsGroup::after_merge(old(self).view())
                && final(self).view().group_id == old(self).view().group_id
                && final(self).view().epoch == old(self).view().epoch + 1
                && *final(w) == (World { mls: old(w).mls.insert(old(self).view().group_id, final(self).view()), merges: old(w).merges + 1, ..*old(w) }),
            r is Err ==> final(self).view() == old(self).view() && *final(w) == *old(w),
    { unimplemented!() }
}
pub uninterp spec fn merge_error_to_error(e: MergeCommitError) -> Error;
impl From<MergeCommitError> for Error { #[verifier::external_body] fn from(e: MergeCommitError) -> (r: Error) ensures r == merge_error_to_error(e) { unimplemented!() } }
impl vstd::std_specs::convert::FromSpecImpl<MergeCommitError> for Error {
    open spec fn obeys_from_spec() -> bool { true }
    open spec fn from_spec(e: MergeCommitError) -> Error { merge_error_to_error(e) }
}
// Option::is_some_and (std): result is the closure's result on Some, false on None
pub assume_specification<T, F: FnOnce(T) -> bool> [Option::<T>::is_some_and] (o: Option<T>, f: F) -> (r: bool)
    requires o is Some ==> f.requires((o->Some_0,)),
    ensures o is None ==> !r, o is Some ==> f.ensures((o->Some_0,), r);
