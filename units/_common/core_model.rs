// =====================================================================================
// core_model.rs — shared prelude of the mdk-core orchestration units (DESIGN.md §2.1).
// Everything in this file is TRUSTED BASE (assumed contracts of nostr / OpenMLS / storage /
// std), except the `//@extract` items, which are copied from /repo by span at every run.
// =====================================================================================
//@include nostr_shims.rs
//@include storage_types.rs
//@include std_shims.rs

impl<T> BTreeSet<T> {
    pub uninterp spec fn view(&self) -> Set<T>;
    #[verifier::external_body]
    pub fn contains(&self, x: &T) -> (r: bool) ensures r == self@.contains(*x) { unimplemented!() }
}
impl PartialEq for PublicKey { fn eq(&self, other: &Self) -> (r: bool) { pk_eq(self, other) } }
#[verifier::external_body]
fn pk_eq(a: &PublicKey, b: &PublicKey) -> (r: bool) ensures r == (*a == *b) { unimplemented!() }
impl vstd::std_specs::cmp::PartialEqSpecImpl for PublicKey {
    open spec fn obeys_eq_spec() -> bool { true }
    open spec fn eq_spec(&self, other: &Self) -> bool { *self == *other }
}
impl PublicKey {
    #[verifier::external_body]
    pub fn to_hex(&self) -> String { unimplemented!() }
}
impl Clone for GroupId {
    #[verifier::external_body]
    fn clone(&self) -> (r: Self) ensures r == *self { unimplemented!() }
}
impl<T> Secret<T> {
    #[verifier::external_body]
    pub fn new(v: T) -> (r: Secret<T>) ensures r.val() == v { unimplemented!() }
    pub uninterp spec fn val(&self) -> T;
}

// nostr::Event: public fields as in nostr 0.44 (sig omitted: never read by the extracted bodies)
pub struct Event {
    pub id: EventId,
    pub pubkey: PublicKey,
    pub created_at: Timestamp,
    pub kind: Kind,
    pub tags: Tags,
    pub content: String,
}

// ---- mdk-storage-traits types, copied verbatim from the repository (attributes stripped: X5) ----
//@extract id=ty.SelfUpdateState file=crates/mdk-storage-traits/src/groups/types.rs item="enum SelfUpdateState"
//@end
//@extract id=ty.GroupState file=crates/mdk-storage-traits/src/groups/types.rs item="enum GroupState"
//@end
//@extract id=ty.Group file=crates/mdk-storage-traits/src/groups/types.rs item="struct Group"
//@end
//@extract id=ty.GroupExporterSecret file=crates/mdk-storage-traits/src/groups/types.rs item="struct GroupExporterSecret"
//@end
//@extract id=ty.MessageState file=crates/mdk-storage-traits/src/messages/types.rs item="enum MessageState"
//@end
//@extract id=ty.Message file=crates/mdk-storage-traits/src/messages/types.rs item="struct Message"
//@end
//@extract id=ty.ProcessedMessageState file=crates/mdk-storage-traits/src/messages/types.rs item="enum ProcessedMessageState"
//@end
//@extract id=ty.ProcessedMessage file=crates/mdk-storage-traits/src/messages/types.rs item="struct ProcessedMessage"
//@end
//@extract id=ty.GroupError file=crates/mdk-storage-traits/src/groups/error.rs item="enum GroupError"
//@end
//@extract id=ty.InvalidGroupState file=crates/mdk-storage-traits/src/groups/error.rs item="enum InvalidGroupState"
//@end
//@extract id=ty.MessageError file=crates/mdk-storage-traits/src/messages/error.rs item="enum MessageError"
//@end
//@extract id=ty.MdkStorageError file=crates/mdk-storage-traits/src/error.rs item="enum MdkStorageError"
//@end
impl GroupError { #[verifier::external_body] pub fn to_string(&self) -> String { unimplemented!() } }
impl MessageError { #[verifier::external_body] pub fn to_string(&self) -> String { unimplemented!() } }
impl MdkStorageError { #[verifier::external_body] pub fn to_string(&self) -> String { unimplemented!() } }
impl Clone for Group {
    #[verifier::external_body]
    fn clone(&self) -> (r: Self) ensures r == *self { unimplemented!() }
}
impl Clone for Message {
    #[verifier::external_body]
    fn clone(&self) -> (r: Self) ensures r == *self { unimplemented!() }
}
impl Clone for ProcessedMessage {
    #[verifier::external_body]
    fn clone(&self) -> (r: Self) ensures r == *self { unimplemented!() }
}
impl Clone for GroupExporterSecret {
    #[verifier::external_body]
    fn clone(&self) -> (r: Self) ensures r == *self { unimplemented!() }
}
impl PartialEq for SelfUpdateState { #[verifier::external_body] fn eq(&self, other: &Self) -> (r: bool) { unimplemented!() } }
impl vstd::std_specs::cmp::PartialEqSpecImpl for SelfUpdateState {
    open spec fn obeys_eq_spec() -> bool { true }
    open spec fn eq_spec(&self, other: &Self) -> bool { *self == *other }
}
impl PartialEq for GroupState { #[verifier::external_body] fn eq(&self, other: &Self) -> (r: bool) { unimplemented!() } }
impl vstd::std_specs::cmp::PartialEqSpecImpl for GroupState {
    open spec fn obeys_eq_spec() -> bool { true }
    open spec fn eq_spec(&self, other: &Self) -> bool { *self == *other }
}
impl PartialEq for MessageState { #[verifier::external_body] fn eq(&self, other: &Self) -> (r: bool) { unimplemented!() } }
impl vstd::std_specs::cmp::PartialEqSpecImpl for MessageState {
    open spec fn obeys_eq_spec() -> bool { true }
    open spec fn eq_spec(&self, other: &Self) -> bool { *self == *other }
}
impl PartialEq for ProcessedMessageState {
    #[verifier::external_body]
    fn eq(&self, other: &Self) -> (r: bool) { unimplemented!() }
}
impl vstd::std_specs::cmp::PartialEqSpecImpl for ProcessedMessageState {
    open spec fn obeys_eq_spec() -> bool { true }
    open spec fn eq_spec(&self, other: &Self) -> bool { *self == *other }
}

// module paths used by the extracted bodies
pub mod group_types { pub use super::{Group, GroupState, SelfUpdateState, GroupExporterSecret}; }
pub mod message_types { pub use super::{Message, MessageState, ProcessedMessage, ProcessedMessageState}; }
pub mod mdk_storage_traits {
    pub use super::{GroupId, Secret, MdkStorageError, MdkStorageProvider};
    pub mod groups { pub mod types { pub use super::super::super::{Group, GroupState, SelfUpdateState, GroupExporterSecret}; } pub mod error { pub use super::super::super::GroupError; } }
    pub mod messages { pub mod types { pub use super::super::super::{Message, MessageState, ProcessedMessage, ProcessedMessageState}; } }
}

// =====================================================================================
// Abstract MLS group state (what OpenMLS holds for one group; every field uninterpreted data)
// =====================================================================================
#[verifier::external_body]
pub struct ExtData { _p: u8 }   // the decoded NostrGroupDataExtension carried by the MLS group context
#[verifier::external_body]
pub struct MemberSet { _p: u8 }

pub struct MlsView {
    pub group_id: GroupId,
    pub epoch: u64,
    pub own_leaf_present: bool,
    pub has_pending_commit: bool,
    pub pending_proposals: nat,       // size of the proposal store
    pub ext: ExtData,
    pub members: MemberSet,
}

// a rollback snapshot taken by EpochSnapshotManager::create_snapshot during the current API call
pub struct SnapKey { pub group: GroupId, pub epoch: u64, pub commit_id: EventId, pub commit_ts: u64 }

// =====================================================================================
// Ghost world: the state behind `&self` (storage tables, persisted MLS state, snapshot manager)
// plus per-call instrumentation flags used to state order conditions.
// =====================================================================================
pub struct World {
    // ---- storage tables (the storage contract of mdk-storage-traits, as maps)
    pub groups: Map<GroupId, Group>,
    pub relays: Map<GroupId, BTreeSet<RelayUrl>>,
    pub messages: Map<(GroupId, EventId), Message>,
    pub processed: Map<EventId, ProcessedMessage>,
    pub exporter_secrets: Map<(GroupId, u64), GroupExporterSecret>,
    pub welcomes: Map<EventId, Welcome>,
    pub processed_welcomes: Map<EventId, ProcessedWelcome>,
    // ---- persisted MLS state per group (OpenMLS provider storage)
    pub mls: Map<GroupId, MlsView>,
    // ---- snapshot manager + storage snapshots
    pub snapshots: Seq<SnapKey>,
    // ---- per-call instrumentation (reset by the caller of an entry point; see each contract)
    pub snapshot_for: Option<SnapKey>,      // snapshot taken during this call
    pub author_verified: Option<PublicKey>, // verify_rumor_author returned Ok for this pubkey
    pub merges: nat,                        // number of MLS merges performed in this call
    pub commits_created: nat,               // number of commits staged by this client (commit_to_pending_proposals / add / remove / ...)
    pub stored_proposals: Seq<QueuedProposal>, // proposals handed to store_pending_proposal
    pub last_added: Seq<KeyPackage>,        // argument of the last OpenMLS add_members
    pub last_removed: Seq<LeafNodeIndex>,   // argument of the last OpenMLS remove_members
    pub last_proposed_extensions: Option<Extensions>, // argument of the last update_group_context_extensions
    pub is_better_result: Option<(GroupId, u64, u64, EventId, bool)>, // last is_better_candidate(group, epoch, ts, id) -> result
    // append-only logs (only the snapshot-manager shims append; every contract preserves them as prefixes)
    pub better_queries: Seq<(GroupId, u64, u64, EventId)>,   // every is_better_candidate(group, epoch, ts, id) call
    pub rollback_attempts: Seq<(GroupId, u64)>,               // every rollback_to_epoch(group, epoch) call
    pub rolled_back_to: Option<u64>,        // rollback_to_epoch succeeded for this epoch in this call
    pub invalidated_after: Option<u64>,     // invalidate_messages_after_epoch called with this epoch
    pub invalidated_processed_after: Option<u64>,
    pub retry_marked: Seq<EventId>,         // ids handed to mark_processed_message_retryable since the last retry query
    pub last_invalidated: Seq<EventId>,     // ids returned by invalidate_messages_after_epoch
    pub last_refetch: Seq<EventId>,         // ids returned by find_failed_messages_for_retry
    pub notified: Option<RollbackNote>,
    pub exported_for: Seq<(GroupId, u64)>,  // exporter_secret exports performed (group, epoch)
    pub secret_lookups: Seq<(GroupId, u64)>, // every get_group_exporter_secret(group, epoch) query, in order
    pub joined: Seq<GroupId>,                // groups joined through StagedWelcome::into_group
}
pub struct RollbackNote { pub group: GroupId, pub target_epoch: u64, pub new_head: EventId, pub invalidated: Seq<EventId>, pub refetch: Seq<EventId> }

// storage-only part of the world (what "the group is exactly as it was" means for C05/C06)
pub open spec fn same_storage(a: World, b: World) -> bool {
    a.groups == b.groups && a.relays == b.relays && a.messages == b.messages && a.processed == b.processed
    && a.exporter_secrets == b.exporter_secrets && a.mls == b.mls && a.snapshots == b.snapshots
    && a.welcomes == b.welcomes && a.processed_welcomes == b.processed_welcomes
}
// everything but the dedup record of one event
pub open spec fn same_storage_except_processed(a: World, b: World, id: EventId) -> bool {
    a.groups == b.groups && a.relays == b.relays && a.messages == b.messages
    && a.exporter_secrets == b.exporter_secrets && a.mls == b.mls && a.snapshots == b.snapshots
    && (forall|k: EventId| k != id ==> (a.processed.contains_key(k) == b.processed.contains_key(k) && (a.processed.contains_key(k) ==> a.processed[k] == b.processed[k])))
}

// =====================================================================================
// Storage contract (assumed): each method is a lookup or an update of one table; Err leaves the
// world unchanged. Whether the two back ends implement it is property C10 and is NOT decided here.
// =====================================================================================
pub struct Backend { pub persistent: bool }
impl Backend { pub fn is_persistent(&self) -> (r: bool) ensures r == self.persistent { self.persistent } }

pub trait MdkStorageProvider {
    fn backend(&self) -> Backend;

    fn find_group_by_mls_group_id(&self, group_id: &GroupId, Tracked(w): Tracked<&mut World>) -> (r: Result<Option<Group>, GroupError>)
        ensures *final(w) == *old(w),
                r is Ok ==> r->Ok_0 == (if old(w).groups.contains_key(*group_id) { Some(old(w).groups[*group_id]) } else { None::<Group> }),
                // primary key: the record stored under an id carries that id
                r is Ok && r->Ok_0 is Some ==> r->Ok_0->Some_0.mls_group_id == *group_id;
    fn find_group_by_nostr_group_id(&self, nostr_group_id: &[u8; 32], Tracked(w): Tracked<&mut World>) -> (r: Result<Option<Group>, GroupError>)
        ensures *final(w) == *old(w),
                r is Ok && r->Ok_0 is Some ==> (old(w).groups.contains_key(r->Ok_0->Some_0.mls_group_id) && old(w).groups[r->Ok_0->Some_0.mls_group_id] == r->Ok_0->Some_0 && r->Ok_0->Some_0.nostr_group_id == *nostr_group_id);
    fn save_group(&self, group: Group, Tracked(w): Tracked<&mut World>) -> (r: Result<(), GroupError>)
        ensures r is Ok ==> *final(w) == (World { groups: old(w).groups.insert(group.mls_group_id, group), ..*old(w) }),
                r is Err ==> *final(w) == *old(w);
    fn replace_group_relays(&self, group_id: &GroupId, relays: BTreeSet<RelayUrl>, Tracked(w): Tracked<&mut World>) -> (r: Result<(), GroupError>)
        ensures r is Ok ==> *final(w) == (World { relays: old(w).relays.insert(*group_id, relays), ..*old(w) }),
                r is Err ==> *final(w) == *old(w);
    fn get_group_exporter_secret(&self, group_id: &GroupId, epoch: u64, Tracked(w): Tracked<&mut World>) -> (r: Result<Option<GroupExporterSecret>, GroupError>)
        ensures *final(w) == (World { secret_lookups: old(w).secret_lookups.push((*group_id, epoch)), ..*old(w) }),
                r is Ok ==> r->Ok_0 == (if old(w).exporter_secrets.contains_key((*group_id, epoch)) { Some(old(w).exporter_secrets[(*group_id, epoch)]) } else { None::<GroupExporterSecret> }),
                // primary key: the record stored under (group, epoch) carries that key
                r is Ok && r->Ok_0 is Some ==> r->Ok_0->Some_0.mls_group_id == *group_id && r->Ok_0->Some_0.epoch == epoch;
    fn save_group_exporter_secret(&self, s: GroupExporterSecret, Tracked(w): Tracked<&mut World>) -> (r: Result<(), GroupError>)
        ensures r is Ok ==> *final(w) == (World { exporter_secrets: old(w).exporter_secrets.insert((s.mls_group_id, s.epoch), s), ..*old(w) }),
                r is Err ==> *final(w) == *old(w);

    fn save_message(&self, message: Message, Tracked(w): Tracked<&mut World>) -> (r: Result<(), MessageError>)
        ensures r is Ok ==> *final(w) == (World { messages: old(w).messages.insert((message.mls_group_id, message.id), message), ..*old(w) }),
                r is Err ==> *final(w) == *old(w);
    fn find_message_by_event_id(&self, mls_group_id: &GroupId, event_id: &EventId, Tracked(w): Tracked<&mut World>) -> (r: Result<Option<Message>, MessageError>)
        ensures *final(w) == *old(w),
                r is Ok ==> r->Ok_0 == (if old(w).messages.contains_key((*mls_group_id, *event_id)) { Some(old(w).messages[(*mls_group_id, *event_id)]) } else { None::<Message> }),
                // primary key: the record stored under (group, id) carries that key
                r is Ok && r->Ok_0 is Some ==> r->Ok_0->Some_0.mls_group_id == *mls_group_id && r->Ok_0->Some_0.id == *event_id;
    fn save_processed_message(&self, pm: ProcessedMessage, Tracked(w): Tracked<&mut World>) -> (r: Result<(), MessageError>)
        ensures r is Ok ==> *final(w) == (World { processed: old(w).processed.insert(pm.wrapper_event_id, pm), ..*old(w) }),
                r is Err ==> *final(w) == *old(w);
    fn find_processed_message_by_event_id(&self, event_id: &EventId, Tracked(w): Tracked<&mut World>) -> (r: Result<Option<ProcessedMessage>, MessageError>)
        ensures *final(w) == *old(w),
                r is Ok ==> r->Ok_0 == (if old(w).processed.contains_key(*event_id) { Some(old(w).processed[*event_id]) } else { None::<ProcessedMessage> }),
                r is Ok && r->Ok_0 is Some ==> r->Ok_0->Some_0.wrapper_event_id == *event_id;
    fn save_welcome(&self, welcome: Welcome, Tracked(w): Tracked<&mut World>) -> (r: Result<(), WelcomeError>)
        ensures r is Ok ==> *final(w) == (World { welcomes: old(w).welcomes.insert(welcome.id, welcome), ..*old(w) }),
                r is Err ==> *final(w) == *old(w);
    fn find_welcome_by_event_id(&self, event_id: &EventId, Tracked(w): Tracked<&mut World>) -> (r: Result<Option<Welcome>, WelcomeError>)
        ensures *final(w) == *old(w),
                r is Ok ==> r->Ok_0 == (if old(w).welcomes.contains_key(*event_id) { Some(old(w).welcomes[*event_id]) } else { None::<Welcome> });
    fn save_processed_welcome(&self, pw: ProcessedWelcome, Tracked(w): Tracked<&mut World>) -> (r: Result<(), WelcomeError>)
        ensures r is Ok ==> *final(w) == (World { processed_welcomes: old(w).processed_welcomes.insert(pw.wrapper_event_id, pw), ..*old(w) }),
                r is Err ==> *final(w) == *old(w);
    fn find_processed_welcome_by_event_id(&self, event_id: &EventId, Tracked(w): Tracked<&mut World>) -> (r: Result<Option<ProcessedWelcome>, WelcomeError>)
        ensures *final(w) == *old(w),
                r is Ok ==> r->Ok_0 == (if old(w).processed_welcomes.contains_key(*event_id) { Some(old(w).processed_welcomes[*event_id]) } else { None::<ProcessedWelcome> });
    // rollback bookkeeping: effects on the tables are left abstract (any change to `messages` /
    // `processed`), the call itself is recorded so that order conditions can be stated
    fn invalidate_messages_after_epoch(&self, group_id: &GroupId, epoch: u64, Tracked(w): Tracked<&mut World>) -> (r: Result<Vec<EventId>, MessageError>)
        requires old(w).rolled_back_to == Some(epoch), //@L[error_recovery.invalidate_only_after_rollback_same_epoch|C01,C02,C06|callsite-requires]
        ensures *final(w) == (World { messages: final(w).messages, invalidated_after: Some(epoch), last_invalidated: final(w).last_invalidated, ..*old(w) }),
                r is Ok ==> final(w).last_invalidated == r->Ok_0@,
                r is Err ==> final(w).last_invalidated == Seq::<EventId>::empty();
    fn invalidate_processed_messages_after_epoch(&self, group_id: &GroupId, epoch: u64, Tracked(w): Tracked<&mut World>) -> (r: Result<Vec<EventId>, MessageError>)
        requires old(w).rolled_back_to == Some(epoch), //@L[error_recovery.invalidate_processed_only_after_rollback_same_epoch|C01,C02,C06|callsite-requires]
        ensures *final(w) == (World { processed: final(w).processed, invalidated_processed_after: Some(epoch), ..*old(w) });
    fn find_failed_messages_for_retry(&self, group_id: &GroupId, Tracked(w): Tracked<&mut World>) -> (r: Result<Vec<EventId>, MessageError>)
        ensures *final(w) == (World { last_refetch: final(w).last_refetch, retry_marked: Seq::<EventId>::empty(), ..*old(w) }),
                r is Ok ==> final(w).last_refetch == r->Ok_0@,
                r is Err ==> final(w).last_refetch == Seq::<EventId>::empty();
    fn mark_processed_message_retryable(&self, event_id: &EventId, Tracked(w): Tracked<&mut World>) -> (r: Result<(), MessageError>)
        requires old(w).rolled_back_to is Some, //@L[error_recovery.retryable_marked_only_after_rollback|C01,C02|callsite-requires]
        ensures *final(w) == (World { processed: final(w).processed, retry_marked: old(w).retry_marked.push(*event_id), ..*old(w) });
}

// Result<Vec<EventId>, MessageError>::unwrap_or_default (std: Ok(v) => v, Err => empty vec)
pub assume_specification<T: Default, E> [Result::<T, E>::unwrap_or_default] (r: Result<T, E>) -> (o: T)
    ensures r is Ok ==> o == r->Ok_0,
            r is Err ==> call_ensures(T::default, (), o);

// =====================================================================================
// OpenMLS (assumed). MlsGroup is opaque; view() is its abstract state.
// =====================================================================================
#[verifier::external_body]
pub struct MlsGroup { _p: u8 }
#[verifier::external_body]
pub struct StagedCommit { _p: u8 }
#[derive(Clone, Copy)]
pub struct LeafNodeIndex { pub idx: u32 }
impl PartialEq for LeafNodeIndex { fn eq(&self, other: &Self) -> (r: bool) { self.idx == other.idx } }
impl vstd::std_specs::cmp::PartialEqSpecImpl for LeafNodeIndex {
    open spec fn obeys_eq_spec() -> bool { true }
    open spec fn eq_spec(&self, other: &Self) -> bool { self.idx == other.idx }
}
#[verifier::external_body]
pub struct ExternalSenderIndex { _p: u8 }
// openmls::prelude::Sender (variants as in openmls 0.8.1)
pub enum Sender {
    Member(LeafNodeIndex),
    External(ExternalSenderIndex),
    NewMemberProposal,
    NewMemberCommit,
}
#[verifier::external_body]
pub struct OpenMlsGroupId { _p: u8 }
pub struct GroupEpoch { pub e: u64 }
impl GroupEpoch { pub fn as_u64(&self) -> (r: u64) ensures r == self.e { self.e } }
#[verifier::external_body]
pub struct LeafNode { _p: u8 }
#[verifier::external_body]
pub struct MergeCommitError { _p: u8 }
#[verifier::external_body]
pub struct RustCrypto { _p: u8 }

impl OpenMlsGroupId { pub uninterp spec fn to_mdk(&self) -> GroupId; }
impl From<&OpenMlsGroupId> for GroupId {
    #[verifier::external_body]
    fn from(g: &OpenMlsGroupId) -> (r: GroupId) ensures r == g.to_mdk() { unimplemented!() }
}
impl vstd::std_specs::convert::FromSpecImpl<&OpenMlsGroupId> for GroupId {
    open spec fn obeys_from_spec() -> bool { true }
    open spec fn from_spec(g: &OpenMlsGroupId) -> GroupId { g.to_mdk() }
}

impl MlsGroup {
    pub uninterp spec fn view(&self) -> MlsView;
    // the state a merge of the currently staged / pending commit leads to (uninterpreted)
    pub uninterp spec fn after_merge(v: MlsView) -> MlsView;

    #[verifier::external_body]
    pub fn group_id(&self) -> (r: &OpenMlsGroupId) ensures r.to_mdk() == self.view().group_id { unimplemented!() }
    #[verifier::external_body]
    pub fn epoch(&self) -> (r: GroupEpoch) ensures r.e == self.view().epoch { unimplemented!() }
    #[verifier::external_body]
    // `own_leaf_present` = the local member is still a member of the group (OpenMLS group state not Inactive). own_leaf() answers for the
    // leaf INDEX: a member has its leaf there, but after an eviction the index may hold the leaf of a member the same commit added (F32),
    // so Some does not imply membership; is_active() does.
    pub fn own_leaf(&self) -> (r: Option<&LeafNode>) ensures (r is Some) == leaf_at_own_index(self.view()), self.view().own_leaf_present ==> r is Some, r is Some ==> leaf_identity(*r->Some_0) == own_leaf_identity(self.view()) { unimplemented!() }
    #[verifier::external_body]
    pub fn is_active(&self) -> (r: bool) ensures r == self.view().own_leaf_present { unimplemented!() }

    // merge of a staged (received) commit. Requires, as call-site obligations of mdk:
    //  - a rollback snapshot of exactly this group and epoch was taken in this call (C01)
    //  - both validators succeeded in this call (C05)
    #[verifier::external_body]
    pub fn merge_staged_commit<S: MdkStorageProvider>(&mut self, provider: &MdkProvider<S>, staged: StagedCommit, Tracked(w): Tracked<&mut World>) -> (r: Result<(), MergeCommitError>)
        requires
            old(w).snapshot_for is Some && old(w).snapshot_for->Some_0.group == old(self).view().group_id && old(w).snapshot_for->Some_0.epoch == old(self).view().epoch, //@L[commit_flow.process_commit.merge_requires_snapshot|C01|callsite-requires]
            exists|s: Sender| #[trigger] commit_authorized(old(self).view(), staged, s) && commit_identities_unchanged(old(self).view(), staged, s), //@L[commit_flow.process_commit.validated_before_merge|C05|callsite-requires]
        ensures
            r is Ok ==> final(self).view() == MlsGroup::after_merge(old(self).view())
                && final(self).view().group_id == old(self).view().group_id
                && final(self).view().epoch == old(self).view().epoch + 1
                && *final(w) == (World { mls: old(w).mls.insert(old(self).view().group_id, final(self).view()), merges: old(w).merges + 1, ..*old(w) }),
            r is Err ==> final(self).view() == old(self).view() && *final(w) == *old(w),
    { unimplemented!() }
}

// ---- group contexts (assumed OpenMLS API): the current one, and the one a staged commit would install
#[verifier::external_body]
pub struct GroupContext { _p: u8 }
impl GroupContext { pub uninterp spec fn ext(&self) -> ExtData; }
impl StagedCommit {
    pub uninterp spec fn new_ctx_ext(&self) -> ExtData;   // group data the commit would install (unrelated to the current one)
    #[verifier::external_body]
    pub fn group_context(&self) -> (r: &GroupContext) ensures r.ext() == self.new_ctx_ext() { unimplemented!() }
}
impl MlsGroup {
    #[verifier::external_body]
    pub fn export_group_context(&self) -> (r: &GroupContext) ensures r.ext() == self.view().ext { unimplemented!() }
}

// identity (32-byte basic credential) of the local member's own leaf, None if it has none / is not a member
pub uninterp spec fn own_leaf_identity(v: MlsView) -> Option<PublicKey>;   // identity of the leaf AT THE OWN INDEX (the member's own while it is a member)
pub uninterp spec fn leaf_at_own_index(v: MlsView) -> bool;              // some leaf sits at the own index (true for a member; may stay true after an eviction: F32)
// ---- members and credentials (assumed OpenMLS API)
#[verifier::external_body]
pub struct Credential { _p: u8 }
impl Clone for Credential { #[verifier::external_body] fn clone(&self) -> (r: Self) ensures r == *self { unimplemented!() } }
pub struct Member { pub index: LeafNodeIndex, pub credential: Credential, pub encryption_key: Vec<u8>, pub signature_key: Vec<u8> }   // openmls::prelude::Member (all four public fields)
#[verifier::external_body]
pub struct BasicCredential { _p: u8 }
pub uninterp spec fn cred_is_basic(c: Credential) -> bool;
pub uninterp spec fn cred_identity(c: Credential) -> Seq<u8>;
impl BasicCredential {
    pub uninterp spec fn id(&self) -> Seq<u8>;
    #[verifier::external_body]
    pub fn identity(&self) -> (r: &[u8]) ensures r@ == self.id() { unimplemented!() }
}
impl TryFrom<Credential> for BasicCredential {
    type Error = BasicCredentialError;
    #[verifier::external_body]
    fn try_from(c: Credential) -> (r: Result<BasicCredential, BasicCredentialError>)
        ensures (r is Ok) == cred_is_basic(c), r is Ok ==> r->Ok_0.id() == cred_identity(c)
    { unimplemented!() }
}
pub uninterp spec fn mls_member_exists(v: MlsView, i: LeafNodeIndex) -> bool;
pub uninterp spec fn mls_member_credential(v: MlsView, i: LeafNodeIndex) -> Credential;
impl MlsGroup {
    #[verifier::external_body]
    pub fn member_at(&self, i: LeafNodeIndex) -> (r: Option<Member>)
        ensures (r is Some) == mls_member_exists(self.view(), i),
                r is Some ==> r->Some_0.credential == mls_member_credential(self.view(), i) && r->Some_0.index == i
    { unimplemented!() }
}
// nostr::PublicKey::from_slice: x-only key validity is a fact about secp256k1 (uninterpreted)
pub uninterp spec fn pk_bytes_valid(b: Seq<u8>) -> bool;
pub uninterp spec fn pk_from_bytes(b: Seq<u8>) -> PublicKey;
#[verifier::external_body]
pub struct KeyError { _p: u8 }
impl PublicKey {
    #[verifier::external_body]
    pub fn from_slice(b: &[u8]) -> (r: Result<PublicKey, KeyError>)
        ensures (r is Ok) == (b@.len() == 32 && pk_bytes_valid(b@)), r is Ok ==> r->Ok_0 == pk_from_bytes(b@)
    { unimplemented!() }
}
// identity bound to a leaf: None if there is no such member or its credential is not a 32-byte basic credential
pub open spec fn member_identity(v: MlsView, i: LeafNodeIndex) -> Option<PublicKey> {
    if mls_member_exists(v, i) && cred_is_basic(mls_member_credential(v, i)) && cred_identity(mls_member_credential(v, i)).len() == 32 && pk_bytes_valid(cred_identity(mls_member_credential(v, i)))
    { Some(pk_from_bytes(cred_identity(mls_member_credential(v, i)))) } else { None }
}

// ---- application messages (assumed OpenMLS / nostr JSON API)
#[verifier::external_body]
pub struct ApplicationMessage { _p: u8 }
impl ApplicationMessage {
    pub uninterp spec fn bytes(&self) -> Seq<u8>;
    #[verifier::external_body]
    pub fn into_bytes(self) -> (r: Vec<u8>) ensures r@ == self.bytes() { unimplemented!() }
}
// serde_json decoding of the rumor (uninterpreted; nostr's JsonUtil::from_json)
pub uninterp spec fn rumor_json_ok(b: Seq<u8>) -> bool;
pub uninterp spec fn rumor_of_json(b: Seq<u8>) -> UnsignedEvent;
impl UnsignedEvent {
    // Ok iff no id is set or the set id is the NIP-01 hash of the fields
    #[verifier::external_body]
    pub fn verify_id(&self) -> (r: Result<(), event::Error>)
        ensures (r is Ok) == (self.id is None || self.id->Some_0 == rumor_hash(*self)),
    { unimplemented!() }

    #[verifier::external_body]
    pub fn from_json(bytes: Vec<u8>) -> (r: Result<UnsignedEvent, event::Error>)
        ensures (r is Ok) == rumor_json_ok(bytes@), r is Ok ==> r->Ok_0 == rumor_of_json(bytes@)
    { unimplemented!() }
}

// ---- proposals inside a staged commit (assumed OpenMLS API; iterators modelled as slices)
impl Clone for LeafNode { #[verifier::external_body] fn clone(&self) -> (r: Self) ensures r == *self { unimplemented!() } }
pub uninterp spec fn leaf_credential(l: LeafNode) -> Credential;
#[verifier::external_body] pub struct SignaturePublicKey { _p: u8 }
impl SignaturePublicKey {
    pub uninterp spec fn bytes(&self) -> Seq<u8>;
    #[verifier::external_body] pub fn as_slice(&self) -> (r: &[u8]) ensures r@ == self.bytes() { unimplemented!() }
}
pub uninterp spec fn leaf_signature_key(l: LeafNode) -> SignaturePublicKey;
impl LeafNode {
    #[verifier::external_body]
    pub fn credential(&self) -> (r: &Credential) ensures *r == leaf_credential(*self) { unimplemented!() }
    #[verifier::external_body]
    pub fn signature_key(&self) -> (r: &SignaturePublicKey) ensures *r == leaf_signature_key(*self) { unimplemented!() }
}
pub open spec fn leaf_identity(l: LeafNode) -> Option<PublicKey> {
    if cred_is_basic(leaf_credential(l)) && cred_identity(leaf_credential(l)).len() == 32 && pk_bytes_valid(cred_identity(leaf_credential(l)))
    { Some(pk_from_bytes(cred_identity(leaf_credential(l)))) } else { None }
}
pub struct UpdateProposal { pub leaf: LeafNode }
impl UpdateProposal { pub fn leaf_node(&self) -> (r: &LeafNode) ensures *r == self.leaf { &self.leaf } }
impl Clone for UpdateProposal { #[verifier::external_body] fn clone(&self) -> (r: Self) ensures r == *self { unimplemented!() } }
#[verifier::external_body] pub struct AddProposal { _p: u8 }
#[verifier::external_body] pub struct RemoveProposal { _p: u8 }
#[verifier::external_body] pub struct OtherProposal { _p: u8 }
// openmls::prelude::Proposal (the variants the extracted bodies name; the rest folded into Other*)
pub enum Proposal {
    Add(Box<AddProposal>),
    Update(Box<UpdateProposal>),
    Remove(Box<RemoveProposal>),
    PreSharedKey(Box<OtherProposal>),
    ReInit(Box<OtherProposal>),
    ExternalInit(Box<OtherProposal>),
    GroupContextExtensions(Box<OtherProposal>),
    SelfRemove,
    Custom(Box<OtherProposal>),
}
//@include welcome_model.rs
//@include mls_proposals_common.rs
//@include mls_commit_ops.rs
// (proposal iterators: see mls_proposals_vec.rs / mls_proposals_iter.rs, chosen per unit)

pub struct MdkProvider<Storage: MdkStorageProvider> {
    pub crypto: RustCrypto,
    pub storage: Storage,
}
impl<Storage: MdkStorageProvider> MdkProvider<Storage> {
    pub fn crypto(&self) -> (r: &RustCrypto) { &self.crypto }
    pub fn storage(&self) -> (r: &Storage) ensures r == &self.storage { &self.storage }
}
impl MlsGroup {
    // MLS exporter (assumed): records the export in the ghost world; the secret itself is uninterpreted
    #[verifier::external_body]
    pub fn export_secret(&self, crypto: &RustCrypto, label: &str, context: &[u8], key_length: usize, Tracked(w): Tracked<&mut World>) -> (r: Result<ExportedBytes, ExportSecretError>)
        ensures r is Ok ==> *final(w) == (World { exported_for: old(w).exported_for.push((self.view().group_id, self.view().epoch)), ..*old(w) }) && r->Ok_0.v@.len() == key_length,
                r is Err ==> *final(w) == *old(w),
                // OpenMLS refuses to export from a group whose own leaf is gone (UseAfterEviction)
                !self.view().own_leaf_present ==> r is Err,
    { unimplemented!() }
}
// the Vec<u8> returned by export_secret, wrapped so that `.try_into::<[u8; 32]>()` has a specification
// (vstd's blanket TryInto spec gives none for Vec<u8> -> [u8; N]); std semantics: Ok iff len == 32, same bytes
pub struct ExportedBytes { pub v: Vec<u8> }
pub struct ExportedBytesErr { }
pub uninterp spec fn arr32(s: Seq<u8>) -> [u8; 32];
impl TryFrom<ExportedBytes> for [u8; 32] {
    type Error = ExportedBytesErr;
    #[verifier::external_body]
    fn try_from(b: ExportedBytes) -> (r: Result<[u8; 32], ExportedBytesErr>) { unimplemented!() }
}
impl vstd::std_specs::convert::TryFromSpecImpl<ExportedBytes> for [u8; 32] {
    open spec fn obeys_try_from_spec() -> bool { true }
    open spec fn try_from_spec(b: ExportedBytes) -> Result<[u8; 32], ExportedBytesErr> {
        if b.v@.len() == 32 { Ok(arr32(b.v@)) } else { Err(ExportedBytesErr {}) }
    }
}

// crate::util::decrypt_with_exporter_secret: NIP-44 decryption under the exporter secret (uninterpreted)
pub mod util {
    use super::*;
    pub uninterp spec fn nip44_ok(s: GroupExporterSecret, c: Seq<char>) -> bool;
    pub uninterp spec fn nip44_plain(s: GroupExporterSecret, c: Seq<char>) -> Seq<u8>;
    #[verifier::external_body]
    pub fn decrypt_with_exporter_secret(secret: &GroupExporterSecret, encrypted_content: &str) -> (r: Result<Vec<u8>, Error>)
        ensures (r is Ok) == nip44_ok(*secret, encrypted_content@), r is Ok ==> r->Ok_0@ == nip44_plain(*secret, encrypted_content@)
    { unimplemented!() }
}

// =====================================================================================
// mdk-core: error type (extracted), MDK struct (declared here: field names as in lib.rs, field
// types replaced by the shims above), snapshot manager (contract only in this prelude)
// =====================================================================================
pub mod hex { #[verifier::external_body] pub struct FromHexError { _p: u8 } }
pub mod key { #[verifier::external_body] pub struct Error { _p: u8 } }
pub mod event { #[verifier::external_body] pub struct Error { _p: u8 } pub mod builder { #[verifier::external_body] pub struct Error { _p: u8 } } }
pub mod nip44 { #[verifier::external_body] pub struct Error { _p: u8 } }
pub mod url { #[verifier::external_body] pub struct Error { _p: u8 } }
pub mod tls_codec { #[verifier::external_body] pub struct Error { _p: u8 } }
pub mod str { #[verifier::external_body] pub struct Utf8Error { _p: u8 } }
#[verifier::external_body] pub struct SignerError { _p: u8 }
#[verifier::external_body] pub struct CryptoError { _p: u8 }
#[verifier::external_body] pub struct LibraryError { _p: u8 }
#[verifier::external_body] pub struct InvalidExtensionError { _p: u8 }
#[verifier::external_body] pub struct CreateMessageError { _p: u8 }
#[verifier::external_body] pub struct ExportSecretError { _p: u8 }
#[verifier::external_body] pub struct BasicCredentialError { _p: u8 }

pub mod error {
    use super::*;
//@extract id=ty.Error file=crates/mdk-core/src/error.rs item="enum Error"
//@end
}
pub use error::Error;
impl From<BasicCredentialError> for Error {
    #[verifier::external_body]
    fn from(e: BasicCredentialError) -> (r: Error) ensures r == Error::BasicCredential(e) { unimplemented!() }
}
impl From<event::Error> for Error {
    #[verifier::external_body]
    fn from(e: event::Error) -> (r: Error) ensures r == Error::Event(e) { unimplemented!() }
}
impl vstd::std_specs::convert::FromSpecImpl<event::Error> for Error {
    open spec fn obeys_from_spec() -> bool { true }
    open spec fn from_spec(e: event::Error) -> Error { Error::Event(e) }
}
impl From<ExportSecretError> for Error {
    #[verifier::external_body]
    fn from(e: ExportSecretError) -> (r: Error) ensures r == Error::ExportSecret(e) { unimplemented!() }
}
impl vstd::std_specs::convert::FromSpecImpl<ExportSecretError> for Error {
    open spec fn obeys_from_spec() -> bool { true }
    open spec fn from_spec(e: ExportSecretError) -> Error { Error::ExportSecret(e) }
}
impl vstd::std_specs::convert::FromSpecImpl<BasicCredentialError> for Error {
    open spec fn obeys_from_spec() -> bool { true }
    open spec fn from_spec(e: BasicCredentialError) -> Error { Error::BasicCredential(e) }
}

// ---- crate::extension (the decoded group-data extension; struct copied from the repository)
pub mod extension {
    use super::*;
//@extract id=ty.NostrGroupDataExtension file=crates/mdk-core/src/extension/types.rs item="struct NostrGroupDataExtension"
//@end
    impl NostrGroupDataExtension {
        // assumed: from_group decodes the extension carried by the MLS group context (the decoder
        // itself is verified in unit ext_codec)
        #[verifier::external_body]
        pub fn from_group(group: &MlsGroup) -> (r: Result<NostrGroupDataExtension, Error>)
            ensures (r is Ok) == ext_valid(group.view().ext),
                    r is Ok ==> ext_fields(r->Ok_0, group.view().ext)
        { unimplemented!() }
    }
    impl NostrGroupDataExtension {
        // same decoder applied to an arbitrary group context (e.g. the one a staged commit would install)
        #[verifier::external_body]
        pub fn from_group_context(ctx: &GroupContext) -> (r: Result<NostrGroupDataExtension, Error>)
            ensures (r is Ok) == ext_valid(ctx.ext()), r is Ok ==> ext_fields(r->Ok_0, ctx.ext())
        { unimplemented!() }
    }
    pub open spec fn ext_fields(x: NostrGroupDataExtension, e: ExtData) -> bool {
        x.name == ext_name(e) && x.description == ext_description(e) && x.admins == ext_admins(e) && x.relays == ext_relays(e)
        && x.image_hash == ext_image_hash(e) && x.image_key == ext_image_key(e) && x.image_nonce == ext_image_nonce(e)
        && x.nostr_group_id == ext_nostr_group_id(e)
    }
}
pub use extension::NostrGroupDataExtension;

pub struct MdkConfig {
    pub max_event_age_secs: u64,
    pub max_future_skew_secs: u64,
    pub out_of_order_tolerance: u32,
    pub maximum_forward_distance: u32,
    pub max_past_epochs: usize,
    pub epoch_snapshot_retention: usize,
    pub snapshot_ttl_seconds: u64,
}

#[verifier::external_body]
pub struct EpochSnapshotManager { _p: u8 }
#[verifier::external_body]
pub struct CallbackHandle { _p: u8 }

//@extract id=ty.RollbackInfo file=crates/mdk-core/src/callback.rs item="struct RollbackInfo"
//@end

impl CallbackHandle {
    // MdkCallback::on_rollback through Arc<dyn MdkCallback> (assumed: the application callback has
    // no access to the library's state). Call-site obligations: the notification is sent after the
    // rollback and both invalidations, and carries exactly the ids computed in this call.
    #[verifier::external_body]
    pub fn on_rollback(&self, info: &RollbackInfo, Tracked(w): Tracked<&mut World>)
        requires
            old(w).rolled_back_to == Some(info.target_epoch) && old(w).invalidated_after == Some(info.target_epoch) && old(w).invalidated_processed_after == Some(info.target_epoch), //@L[error_recovery.notify_after_rollback_and_invalidation|C01|callsite-requires]
            info.invalidated_messages@ == old(w).last_invalidated && info.messages_needing_refetch@ == old(w).last_refetch, //@L[error_recovery.notify_carries_ids|C01,C02|callsite-requires]
            old(w).retry_marked =~= old(w).last_refetch, //@L[error_recovery.retryable_marked_before_notify|C01,C02|callsite-requires]
        ensures *final(w) == (World { notified: Some(RollbackNote { group: info.group_id, target_epoch: info.target_epoch, new_head: info.new_head_event, invalidated: info.invalidated_messages@, refetch: info.messages_needing_refetch@ }), ..*old(w) }),
    { unimplemented!() }
}

pub struct MDK<Storage: MdkStorageProvider> {
    pub provider: MdkProvider<Storage>,
    pub config: MdkConfig,
    pub epoch_snapshots: EpochSnapshotManager,
    pub callback: Option<CallbackHandle>,
}

impl EpochSnapshotManager {
    // contract of EpochSnapshotManager::create_snapshot as seen by its callers (assumed here; its
    // prune loop is proved in unit snapshot_queue)
    #[verifier::external_body]
    pub fn create_snapshot<S: MdkStorageProvider>(&self, storage: &S, group_id: &GroupId, current_epoch: u64, commit_id: &EventId, commit_ts: u64, Tracked(w): Tracked<&mut World>) -> (r: Result<String, Error>)
        ensures
            r is Ok ==> *final(w) == (World {
                snapshot_for: Some(SnapKey { group: *group_id, epoch: current_epoch, commit_id: *commit_id, commit_ts: commit_ts }),
                snapshots: final(w).snapshots,
                ..*old(w) }),
            r is Err ==> *final(w) == *old(w),
    { unimplemented!() }

    #[verifier::external_body]
    pub fn is_better_candidate<S: MdkStorageProvider>(&self, storage: &S, group_id: &GroupId, candidate_epoch: u64, candidate_ts: u64, candidate_id: &EventId, Tracked(w): Tracked<&mut World>) -> (r: bool)
        ensures r == better_candidate(*old(w), *group_id, candidate_epoch, candidate_ts, *candidate_id),
                *final(w) == (World { is_better_result: Some((*group_id, candidate_epoch, candidate_ts, *candidate_id, r)), better_queries: old(w).better_queries.push((*group_id, candidate_epoch, candidate_ts, *candidate_id)), ..*old(w) }),
    { unimplemented!() }

    #[verifier::external_body]
    pub fn rollback_to_epoch<S: MdkStorageProvider>(&self, storage: &S, group_id: &GroupId, target_epoch: u64, Tracked(w): Tracked<&mut World>) -> (r: Result<(), Error>)
        requires old(w).is_better_result is Some && old(w).is_better_result->Some_0.0 == *group_id && old(w).is_better_result->Some_0.1 == target_epoch && old(w).is_better_result->Some_0.4, //@L[error_recovery.rollback_only_if_better|C01,C06,C07|callsite-requires]
        ensures
            r is Ok ==> *final(w) == (World { rolled_back_to: Some(target_epoch), rollback_attempts: old(w).rollback_attempts.push((*group_id, target_epoch)),
                groups: final(w).groups, relays: final(w).relays, exporter_secrets: final(w).exporter_secrets, mls: final(w).mls, snapshots: final(w).snapshots, ..*old(w) }),
            r is Err ==> *final(w) == (World { rollback_attempts: old(w).rollback_attempts.push((*group_id, target_epoch)), ..*old(w) }),
    { unimplemented!() }
}
// result of the MIP-03 comparison (decided in unit mip03) — uninterpreted at this level
pub uninterp spec fn better_candidate(w: World, g: GroupId, epoch: u64, ts: u64, id: EventId) -> bool;

impl<Storage: MdkStorageProvider> MDK<Storage> {
    pub fn storage(&self) -> (r: &Storage) ensures r == &self.provider.storage { &self.provider.storage }
}

// ---- path aliases so that fully qualified paths in the extracted text resolve to the shims
pub mod nostr {
    pub use super::{Timestamp, EventId, PublicKey, Kind, Tags, UnsignedEvent, RelayUrl, Event};
}
pub mod openmls {
    pub mod prelude { pub use super::super::{LeafNodeIndex, Sender, MlsGroup, StagedCommit, BasicCredential, Credential, Member, Proposal}; }
    pub mod credentials { pub use super::super::{BasicCredential, Credential}; }
    pub mod group { pub use super::super::{MlsGroup, StagedCommit}; }
}

// Display for shim types that the extracted bodies pass to format! (never inspected; no precondition)
impl core::fmt::Display for KeyError { #[verifier::external_body] fn fmt(&self, _f: &mut core::fmt::Formatter<'_>) -> core::fmt::Result { unimplemented!() } }
impl vstd::std_specs::fmt::DisplaySpecImpl for KeyError { open spec fn fmt_req(&self, f: &core::fmt::Formatter<'_>) -> bool { true } }
impl core::fmt::Display for PublicKey { #[verifier::external_body] fn fmt(&self, _f: &mut core::fmt::Formatter<'_>) -> core::fmt::Result { unimplemented!() } }
impl vstd::std_specs::fmt::DisplaySpecImpl for PublicKey { open spec fn fmt_req(&self, f: &core::fmt::Formatter<'_>) -> bool { true } }
impl core::fmt::Display for EventId { #[verifier::external_body] fn fmt(&self, _f: &mut core::fmt::Formatter<'_>) -> core::fmt::Result { unimplemented!() } }
impl vstd::std_specs::fmt::DisplaySpecImpl for EventId { open spec fn fmt_req(&self, f: &core::fmt::Formatter<'_>) -> bool { true } }
impl core::fmt::Display for tls_codec::Error { #[verifier::external_body] fn fmt(&self, _f: &mut core::fmt::Formatter<'_>) -> core::fmt::Result { unimplemented!() } }
impl vstd::std_specs::fmt::DisplaySpecImpl for tls_codec::Error { open spec fn fmt_req(&self, f: &core::fmt::Formatter<'_>) -> bool { true } }
impl core::fmt::Debug for Error { #[verifier::external_body] fn fmt(&self, _f: &mut core::fmt::Formatter<'_>) -> core::fmt::Result { unimplemented!() } }
impl vstd::std_specs::fmt::DebugSpecImpl for Error { open spec fn fmt_req(&self, f: &core::fmt::Formatter<'_>) -> bool { true } }
