// ---- queued proposals, proposal store and commit construction (assumed OpenMLS API), shared by both iterator variants
#[verifier::external_body] pub struct QueuedProposal { _p: u8 }
impl QueuedProposal {
    pub uninterp spec fn prop(&self) -> Proposal;
    pub uninterp spec fn snd(&self) -> Sender;
    #[verifier::external_body] pub fn proposal(&self) -> (r: &Proposal) ensures *r == self.prop() { unimplemented!() }
    #[verifier::external_body] pub fn sender(&self) -> (r: &Sender) ensures *r == self.snd() { unimplemented!() }
}
impl StagedCommit {
    // every proposal the commit covers (inline and by reference), in order
    pub uninterp spec fn qps(&self) -> Seq<QueuedProposal>;
}
impl RemoveProposal {
    pub uninterp spec fn rm(&self) -> LeafNodeIndex;
    #[verifier::external_body] pub fn removed(&self) -> (r: LeafNodeIndex) ensures r == self.rm() { unimplemented!() }
}
#[verifier::external_body] pub struct SignatureKeyPair { _p: u8 }
#[verifier::external_body] pub struct MlsMessageOut { _p: u8 }
#[verifier::external_body] pub struct GroupInfo { _p: u8 }
#[verifier::external_body] pub struct CommitToPendingProposalsError { _p: u8 }
#[verifier::external_body] pub struct StorePendingError { _p: u8 }
impl MlsMessageOut {
    #[verifier::external_body] pub fn tls_serialize_detached(&self) -> (r: Result<Vec<u8>, tls_codec::Error>) { unimplemented!() }
}
impl From<CommitToPendingProposalsError> for Error { #[verifier::external_body] fn from(e: CommitToPendingProposalsError) -> (r: Error) ensures r == Error::CommitToPendingProposalsError { unimplemented!() } }
impl vstd::std_specs::convert::FromSpecImpl<CommitToPendingProposalsError> for Error {
    open spec fn obeys_from_spec() -> bool { true }
    open spec fn from_spec(e: CommitToPendingProposalsError) -> Error { Error::CommitToPendingProposalsError }
}
impl MlsGroup {
    // stores a received proposal in the group's proposal store (persisted); nothing else changes
    #[verifier::external_body]
    pub fn store_pending_proposal<S: MdkStorageProvider>(&mut self, storage: &S, p: QueuedProposal, Tracked(w): Tracked<&mut World>) -> (r: Result<(), StorePendingError>)
        ensures
            r is Ok ==> final(self).view() == (MlsView { pending_proposals: old(self).view().pending_proposals + 1, ..old(self).view() })
                && *final(w) == (World { mls: old(w).mls.insert(old(self).view().group_id, final(self).view()), stored_proposals: old(w).stored_proposals.push(p), ..*old(w) }),
            r is Err ==> final(self).view() == old(self).view() && *final(w) == *old(w),
    { unimplemented!() }
    // builds (stages) a commit covering EVERY proposal in the store (openmls 0.8.1: `.build(.., |_| true)`).
    // Call-site obligation (C05 "an admin's own operation changes exactly what it names"): the store
    // holds nothing but the proposal this operation is about.
    #[verifier::external_body]
    pub fn commit_to_pending_proposals<S: MdkStorageProvider>(&mut self, provider: &MdkProvider<S>, signer: &SignatureKeyPair, Tracked(w): Tracked<&mut World>) -> (r: Result<(MlsMessageOut, Option<MlsMessageOut>, Option<GroupInfo>), CommitToPendingProposalsError>)
        requires old(self).view().pending_proposals == 1, //@L[group_ops.commit_sweeps_only_the_named_proposal|C05|callsite-requires]
        ensures
            r is Ok ==> final(self).view() == (MlsView { has_pending_commit: true, ..old(self).view() })
                && *final(w) == (World { mls: old(w).mls.insert(old(self).view().group_id, final(self).view()), commits_created: old(w).commits_created + 1, ..*old(w) }),
            r is Err ==> final(self).view() == old(self).view() && *final(w) == *old(w),
    { unimplemented!() }
}
