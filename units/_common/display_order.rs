// display order key and its lexicographic comparison (oracle, taken from the property text:
// "created_at DESC, processed_at DESC, id DESC" — Greater == appears first)
pub open spec fn display_cmp(ac: u64, ap: u64, ai: Seq<u8>, bc: u64, bp: u64, bi: Seq<u8>) -> Ordering {
    if ac < bc { Ordering::Less } else if ac > bc { Ordering::Greater }
    else if ap < bp { Ordering::Less } else if ap > bp { Ordering::Greater }
    else { lex_cmp(ai, bi) }
}

impl Message {
    // ASSUMED here, PROVED on the real code by the Kani unit cmp_keys (same statement).
    #[verifier::external_body]
    pub fn compare_display_keys(a_created_at: Timestamp, a_processed_at: Timestamp, a_id: EventId,
                                b_created_at: Timestamp, b_processed_at: Timestamp, b_id: EventId) -> (r: Ordering)
        ensures r == display_cmp(a_created_at.secs, a_processed_at.secs, a_id.bytes@, b_created_at.secs, b_processed_at.secs, b_id.bytes@)
    { unimplemented!() }
    // ASSUMED here, PROVED on the real code by the Kani unit cmp_keys (same statement).
    #[verifier::external_body]
    pub fn compare_processed_at_keys(a_processed_at: Timestamp, a_created_at: Timestamp, a_id: EventId,
                                     b_processed_at: Timestamp, b_created_at: Timestamp, b_id: EventId) -> (r: Ordering)
        ensures r == display_cmp(a_processed_at.secs, a_created_at.secs, a_id.bytes@, b_processed_at.secs, b_created_at.secs, b_id.bytes@)
    { unimplemented!() }
}

pub open spec fn new_key_wins(g: Group, m: Message) -> bool {
    match (g.last_message_at, g.last_message_processed_at, g.last_message_id) {
        (None, _, _) => true,
        (Some(a), Some(p), Some(i)) => display_cmp(m.created_at.secs, m.processed_at.secs, m.id.bytes@, a.secs, p.secs, i.bytes@) == Ordering::Greater,
        (Some(a), None, _) => m.created_at.secs >= a.secs,
        (Some(a), Some(_), None) => m.created_at.secs > a.secs,
    }
}

