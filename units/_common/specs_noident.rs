// ---- shared spec vocabulary of the orchestration contracts (definitions only, no assumptions
// except the `uninterp` functions, which stand for facts decided elsewhere or by OpenMLS) ----

// result of MDK::is_pure_self_update_commit: uninterpreted in the orchestration units; its definition
// (C05: "does nothing but refresh its author's own key material") is pure_self_update_def below,
// proved equal to the real function's result in unit pure_self_update
pub uninterp spec fn pure_self_update(c: StagedCommit, i: LeafNodeIndex) -> bool;
// C05 decision table, taken from the property text: the author must be a member, and either an
// admin of the current epoch (admin set read from the MLS group context) or doing nothing but
// refreshing its own key material
pub open spec fn commit_authorized(v: MlsView, c: StagedCommit, s: Sender) -> bool {
    s is Member && member_identity(v, s->Member_0) is Some && ext_valid(v.ext)
    && (ext_admins(v.ext)@.contains(member_identity(v, s->Member_0)->Some_0) || pure_self_update(c, s->Member_0))
}
// fields of the decoded group-data extension (uninterpreted projections of ExtData)
pub uninterp spec fn ext_valid(e: ExtData) -> bool;       // NostrGroupDataExtension::from_group succeeds
pub uninterp spec fn ext_name(e: ExtData) -> String;
pub uninterp spec fn ext_description(e: ExtData) -> String;
pub uninterp spec fn ext_image_hash(e: ExtData) -> Option<[u8; 32]>;
pub uninterp spec fn ext_image_key(e: ExtData) -> Option<[u8; 32]>;
pub uninterp spec fn ext_image_nonce(e: ExtData) -> Option<[u8; 12]>;
pub uninterp spec fn ext_admins(e: ExtData) -> BTreeSet<PublicKey>;
pub uninterp spec fn ext_nostr_group_id(e: ExtData) -> [u8; 32];
pub uninterp spec fn ext_relays(e: ExtData) -> BTreeSet<RelayUrl>;

pub open spec fn opt_secret_is<T>(s: Option<Secret<T>>, v: Option<T>) -> bool {
    (s is Some) == (v is Some) && (s is Some ==> s->Some_0.val() == v->Some_0)
}

// C08: the stored record mirrors the MLS state
pub open spec fn record_mirrors(g: Group, v: MlsView) -> bool {
    g.epoch == v.epoch
    && g.name == ext_name(v.ext) && g.description == ext_description(v.ext)
    && g.image_hash == ext_image_hash(v.ext)
    && opt_secret_is(g.image_key, ext_image_key(v.ext))
    && opt_secret_is(g.image_nonce, ext_image_nonce(v.ext))
    && g.admin_pubkeys == ext_admins(v.ext)
    && g.nostr_group_id == ext_nostr_group_id(v.ext)
}
pub open spec fn group_mirrors_mls(w: World, g: GroupId) -> bool {
    w.groups.contains_key(g) && w.mls.contains_key(g) && record_mirrors(w.groups[g], w.mls[g])
    && w.relays.contains_key(g) && w.relays[g] == ext_relays(w.mls[g].ext)
}

// C08 "never to a different group": the Nostr group id n is the one in force for a stored group other than g
pub open spec fn nostr_id_owned_by_other_group(groups: Map<GroupId, Group>, n: [u8; 32], g: GroupId) -> bool {
    exists|o: GroupId| o != g && #[trigger] groups.contains_key(o) && groups[o].nostr_group_id == n
}

// C08 "incoming events are matched to the group by the Nostr group id currently in force": the id an event carries in its
// h tag (what MDK::extract_nostr_group_id returns; its checks are decided in unit event_validation) and the group whose
// STORED record carries that id now
pub uninterp spec fn event_h_tag_id(e: Event) -> Option<[u8; 32]>;
pub open spec fn routed_by_id_in_force(w: World, e: Event, g: GroupId) -> bool {
    event_h_tag_id(e) is Some && w.groups.contains_key(g) && w.groups[g].nostr_group_id == event_h_tag_id(e)->Some_0
}

// C06: a refused event leaves nothing behind but (at most) its own failure record
pub open spec fn only_failure_record(a: World, b: World, id: EventId) -> bool {
    b == (World { processed: b.processed, ..a })
    && (b.processed == a.processed
        || (b.processed.contains_key(id) && b.processed == a.processed.insert(id, b.processed[id]) && b.processed[id].state == ProcessedMessageState::Failed))
}

// C01 "commits ahead of their predecessors": the dedup record of an event that could not be decrypted when it
// arrived (state Failed, no epoch: process_message step 2) -- it may simply belong to an epoch this member has
// not reached yet -- and the predicate "the dedup step refuses this event without looking at it"
pub open spec fn undecryptable_record(w: World, id: EventId, g: GroupId) -> bool {
    w.processed.contains_key(id) && w.processed[id].state == ProcessedMessageState::Failed && w.processed[id].epoch is None && w.processed[id].mls_group_id == Some(g)
}
pub open spec fn blocked_by_dedup(w: World, id: EventId) -> bool {
    w.processed.contains_key(id) && (w.processed[id].state == ProcessedMessageState::Failed || w.processed[id].state == ProcessedMessageState::EpochInvalidated)
}
// after the epoch of group g advanced, no event of g that was refused only because it could not be decrypted stays refused
pub open spec fn epoch_advance_reopens_undecryptable(a: World, b: World, g: GroupId) -> bool {
    forall|id: EventId| #[trigger] undecryptable_record(a, id, g) ==> !blocked_by_dedup(b, id)
}

// C04: what makes an application rumor acceptable
pub open spec fn app_rumor_id_valid(a: ApplicationMessage) -> bool {
    let ru = rumor_of_json(a.bytes());
    ru.id is None || ru.id->Some_0 == rumor_hash(ru)
}
pub open spec fn app_author_ok(a: ApplicationMessage, c: Credential) -> bool {
    cred_is_basic(c) && cred_identity(c).len() == 32 && pk_bytes_valid(cred_identity(c))
    && rumor_of_json(a.bytes()).pubkey == pk_from_bytes(cred_identity(c))
}

// after an own self-update commit the record additionally carries the completion time: everything
// the MLS state determines still mirrors it
pub open spec fn group_mirrors_mls_except_self_update(w: World, g: GroupId) -> bool {
    w.groups.contains_key(g) && w.mls.contains_key(g) && record_mirrors(w.groups[g], w.mls[g])
    && w.relays.contains_key(g) && w.relays[g] == ext_relays(w.mls[g].ext)
}

// the append-only ghost logs only ever grow
pub open spec fn logs_extend(a: World, b: World) -> bool {
    a.better_queries.len() <= b.better_queries.len() && b.better_queries.subrange(0, a.better_queries.len() as int) =~= a.better_queries
    && a.rollback_attempts.len() <= b.rollback_attempts.len() && b.rollback_attempts.subrange(0, a.rollback_attempts.len() as int) =~= a.rollback_attempts
}

// result of MDK::is_leaf_node_admin for the receiver's own leaf (decided in unit group_ops) — uninterpreted here
pub uninterp spec fn leaf_is_admin(w: World, v: MlsView) -> bool;

// C02/C03: the outer-layer lookback window is the past epochs [cur - L, cur - 1], at most L of them
pub open spec fn window_len(cur: u64, lookback: u64) -> int {
    if cur == 0 || lookback == 0 { 0 } else if lookback <= cur { lookback as int } else { cur as int }
}
