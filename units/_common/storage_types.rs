// ---- mdk-storage-traits opaque helper types (trusted base) ----
#[verifier::external_body]
pub struct GroupId { _p: u8 }
#[verifier::external_body]
#[verifier::reject_recursive_types(T)]
pub struct Secret<T> { _p: core::marker::PhantomData<T> }
#[verifier::external_body]
#[verifier::reject_recursive_types(T)]
pub struct BTreeSet<T> { _p: core::marker::PhantomData<T> }
