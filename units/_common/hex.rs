// ---- hex strings: EventId::to_hex() returns the lowercase hex String of the 32 bytes (nostr 0.44,
// assumed) and String's `<` is lexicographic on bytes (std, assumed). HexString models that String.
pub open spec fn hex_digit(n: u8) -> u8 { if n < 10 { (48 + n) as u8 } else { (87 + n) as u8 } }  // '0'..'9','a'..'f'
pub open spec fn hex_encode(b: Seq<u8>) -> Seq<u8>
    decreases b.len()
{
    if b.len() == 0 { Seq::<u8>::empty() }
    else { seq![hex_digit(b[0] / 16), hex_digit(b[0] % 16)] + hex_encode(b.subrange(1, b.len() as int)) }
}
pub struct HexString { pub src: [u8; 32] }
impl PartialEq for HexString { #[verifier::external_body] fn eq(&self, other: &Self) -> (r: bool) { unimplemented!() } }
impl PartialOrd for HexString {
    #[verifier::external_body]
    fn partial_cmp(&self, other: &Self) -> (r: Option<Ordering>) { unimplemented!() }
}
impl vstd::std_specs::cmp::PartialEqSpecImpl for HexString {
    open spec fn obeys_eq_spec() -> bool { true }
    open spec fn eq_spec(&self, other: &Self) -> bool { self.src@ == other.src@ }
}
impl vstd::std_specs::cmp::PartialOrdSpecImpl for HexString {
    open spec fn obeys_partial_cmp_spec() -> bool { true }
    // order of the hex strings == order of the bytes: justified by lemma hex_order_preserving below
    open spec fn partial_cmp_spec(&self, other: &Self) -> Option<Ordering> { Some(lex_cmp(self.src@, other.src@)) }
}
impl EventId {
    #[verifier::external_body]
    pub fn to_hex(&self) -> (r: HexString) ensures r.src == self.bytes { unimplemented!() }
}

pub proof fn lex_lt_irreflexive(a: Seq<u8>)
    ensures !lex_lt(a, a)
    decreases a.len()
{
    if a.len() > 0 { lex_lt_irreflexive(a.subrange(1, a.len() as int)); }
}
pub proof fn lex_lt_asymmetric(a: Seq<u8>, b: Seq<u8>)
    requires a.len() == b.len(), lex_lt(a, b)
    ensures !lex_lt(b, a)
    decreases a.len()
{
    if a.len() > 0 && a[0] == b[0] { lex_lt_asymmetric(a.subrange(1, a.len() as int), b.subrange(1, b.len() as int)); }
}
pub proof fn lex_lt_transitive(a: Seq<u8>, b: Seq<u8>, c: Seq<u8>)
    requires a.len() == b.len(), b.len() == c.len(), lex_lt(a, b), lex_lt(b, c)
    ensures lex_lt(a, c)
    decreases a.len()
{
    if a.len() > 0 && a[0] == b[0] && b[0] == c[0] {
        lex_lt_transitive(a.subrange(1, a.len() as int), b.subrange(1, b.len() as int), c.subrange(1, c.len() as int));
    }
}
pub proof fn lex_lt_total(a: Seq<u8>, b: Seq<u8>)
    requires a.len() == b.len(), a != b
    ensures lex_lt(a, b) || lex_lt(b, a)
    decreases a.len()
{
    if a.len() == 0 {
        assert(a =~= b);
    } else if a[0] == b[0] {
        let a1 = a.subrange(1, a.len() as int);
        let b1 = b.subrange(1, b.len() as int);
        if a1 == b1 {
            assert(a =~= seq![a[0]] + a1);
            assert(b =~= seq![b[0]] + b1);
        }
        lex_lt_total(a1, b1);
    }
}
// lowercase hex encoding of equal-length byte strings preserves lexicographic order and equality
pub proof fn hex_digit_monotone(x: u8, y: u8)
    requires x < 16, y < 16
    ensures (x < y) == (hex_digit(x) < hex_digit(y)), (x == y) == (hex_digit(x) == hex_digit(y))
{}
pub proof fn nibbles_order(x: u8, y: u8)
    ensures (x == y) == (x / 16 == y / 16 && x % 16 == y % 16),
            (x < y) == (x / 16 < y / 16 || (x / 16 == y / 16 && x % 16 < y % 16)),
            x / 16 < 16, x % 16 < 16,
{
    assert((x == y) == (x / 16 == y / 16 && x % 16 == y % 16)) by (bit_vector);
    assert((x < y) == (x / 16 < y / 16 || (x / 16 == y / 16 && x % 16 < y % 16))) by (bit_vector);
    assert(x / 16 < 16 && x % 16 < 16) by (bit_vector);
}
pub proof fn hex_order_preserving(a: Seq<u8>, b: Seq<u8>)
    requires a.len() == b.len()
    ensures lex_lt(hex_encode(a), hex_encode(b)) == lex_lt(a, b),
            (hex_encode(a) == hex_encode(b)) == (a == b),
            hex_encode(a).len() == 2 * a.len(),
    decreases a.len()
{
    if a.len() == 0 {
        assert(a =~= b);
    } else {
        let a1 = a.subrange(1, a.len() as int);
        let b1 = b.subrange(1, b.len() as int);
        hex_order_preserving(a1, b1);
        let ha = hex_encode(a); let hb = hex_encode(b);
        let (ah, al, bh, bl) = ((a[0] / 16) as u8, (a[0] % 16) as u8, (b[0] / 16) as u8, (b[0] % 16) as u8);
        hex_digit_monotone(ah, bh); hex_digit_monotone(al, bl);
        assert(ha[0] == hex_digit(ah) && ha[1] == hex_digit(al));
        assert(hb[0] == hex_digit(bh) && hb[1] == hex_digit(bl));
        assert(ha.subrange(1, ha.len() as int).subrange(1, ha.len() - 1) =~= hex_encode(a1));
        assert(hb.subrange(1, hb.len() as int).subrange(1, hb.len() - 1) =~= hex_encode(b1));
        assert(ha.subrange(1, ha.len() as int)[0] == ha[1]);
        assert(hb.subrange(1, hb.len() as int)[0] == hb[1]);
        nibbles_order(a[0], b[0]);
        reveal_with_fuel(lex_lt, 3);
        assert(ha.len() >= 2 && hb.len() >= 2);
        assert(ha.len() == 2 + hex_encode(a1).len());
        assert(hb.len() == 2 + hex_encode(b1).len());
        if a == b { assert(hex_encode(a) == hex_encode(b)); }
        if hex_encode(a) == hex_encode(b) {
            assert(hex_encode(a1) =~= hex_encode(b1));
            assert(a =~= seq![a[0]] + a1);
            assert(b =~= seq![b[0]] + b1);
        }
    }
}
