
// ---- appended by /verif (Kani unit cmp_keys) to a scratch copy of crates/mdk-storage-traits/src/lib.rs ----
#[cfg(any(kani, test))]
#[allow(missing_docs, dead_code, unused_imports)]
pub mod verif_kani {
    use crate::messages::types::Message;
    use nostr::{EventId, Timestamp};
    use std::cmp::Ordering;

    /// Oracle, written from the property text ("created_at, then processed_at, then id",
    /// Greater == appears first) without using Ord on the nostr types.
    pub fn lex_bytes(a: &[u8; 32], b: &[u8; 32]) -> Ordering {
        let mut i = 0;
        while i < 32 {
            if a[i] < b[i] {
                return Ordering::Less;
            }
            if a[i] > b[i] {
                return Ordering::Greater;
            }
            i += 1;
        }
        Ordering::Equal
    }
    pub fn lex3(a1: u64, a2: u64, a3: &[u8; 32], b1: u64, b2: u64, b3: &[u8; 32]) -> Ordering {
        if a1 < b1 {
            Ordering::Less
        } else if a1 > b1 {
            Ordering::Greater
        } else if a2 < b2 {
            Ordering::Less
        } else if a2 > b2 {
            Ordering::Greater
        } else {
            lex_bytes(a3, b3)
        }
    }
    pub fn display_spec(ac: Timestamp, ap: Timestamp, ai: EventId, bc: Timestamp, bp: Timestamp, bi: EventId) -> Ordering {
        lex3(ac.as_secs(), ap.as_secs(), ai.as_bytes(), bc.as_secs(), bp.as_secs(), bi.as_bytes())
    }
    pub fn processed_spec(ap: Timestamp, ac: Timestamp, ai: EventId, bp: Timestamp, bc: Timestamp, bi: EventId) -> Ordering {
        lex3(ap.as_secs(), ac.as_secs(), ai.as_bytes(), bp.as_secs(), bc.as_secs(), bi.as_bytes())
    }

    #[cfg(kani)]
    fn any_ts() -> Timestamp {
        Timestamp::from_secs(kani::any())
    }
    #[cfg(kani)]
    fn any_id() -> EventId {
        EventId::from_byte_array(kani::any())
    }

    #[cfg(kani)]
    #[kani::proof_for_contract(Message::compare_display_keys)]
    #[kani::unwind(34)]
    fn cmp_display_keys_contract() {
        let r = Message::compare_display_keys(any_ts(), any_ts(), any_id(), any_ts(), any_ts(), any_id());
        kani::cover!(r == Ordering::Equal);
        kani::cover!(r == Ordering::Greater);
    }

    #[cfg(kani)]
    #[kani::proof_for_contract(Message::compare_processed_at_keys)]
    #[kani::unwind(34)]
    fn cmp_processed_at_keys_contract() {
        let r = Message::compare_processed_at_keys(any_ts(), any_ts(), any_id(), any_ts(), any_ts(), any_id());
        kani::cover!(r == Ordering::Equal);
        kani::cover!(r == Ordering::Less);
    }

    // ---- replay on the real code (plain cargo test, no Kani): VX_REPLAY_VALS = "u64,u64,hex32,u64,u64,hex32"
    #[cfg(test)]
    fn parse_vals() -> Option<(u64, u64, [u8; 32], u64, u64, [u8; 32])> {
        let s = std::env::var("VX_REPLAY_VALS").ok()?;
        let p: Vec<&str> = s.split(',').collect();
        let hx = |h: &str| {
            let mut o = [0u8; 32];
            for i in 0..32 {
                o[i] = u8::from_str_radix(&h[2 * i..2 * i + 2], 16).unwrap();
            }
            o
        };
        Some((p[0].parse().ok()?, p[1].parse().ok()?, hx(p[2]), p[3].parse().ok()?, p[4].parse().ok()?, hx(p[5])))
    }
    #[test]
    fn verif_replay_cmp_display_keys_contract() {
        if let Some((a1, a2, a3, b1, b2, b3)) = parse_vals() {
            let (ac, ap, ai) = (Timestamp::from_secs(a1), Timestamp::from_secs(a2), EventId::from_byte_array(a3));
            let (bc, bp, bi) = (Timestamp::from_secs(b1), Timestamp::from_secs(b2), EventId::from_byte_array(b3));
            assert_eq!(Message::compare_display_keys(ac, ap, ai, bc, bp, bi), display_spec(ac, ap, ai, bc, bp, bi));
        }
    }
    #[test]
    fn verif_replay_cmp_processed_at_keys_contract() {
        if let Some((a1, a2, a3, b1, b2, b3)) = parse_vals() {
            let (ap, ac, ai) = (Timestamp::from_secs(a1), Timestamp::from_secs(a2), EventId::from_byte_array(a3));
            let (bp, bc, bi) = (Timestamp::from_secs(b1), Timestamp::from_secs(b2), EventId::from_byte_array(b3));
            assert_eq!(Message::compare_processed_at_keys(ap, ac, ai, bp, bc, bi), processed_spec(ap, ac, ai, bp, bc, bi));
        }
    }
}
