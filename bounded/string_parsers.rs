// BOUNDED stand-in (NOT a proof) for string / iterator code that no contract here can reach (key-package tag validators,
// imeta tag parser): the REAL public API is run on every value of a small enumerated set, inside catch_unwind, and its
// answer is compared with the documented grammar. Appended by /verif/driver (engine "bounded") to
// crates/mdk-core/src/lib.rs of a scratch copy of /repo; run with
//   cargo test --offline -p mdk-core --features mip04 --lib verif_bounded_strings
#[cfg(test)]
mod verif_bounded_strings {
    use std::panic::{AssertUnwindSafe, catch_unwind};

    use nostr::{Event, EventBuilder, Keys, Kind, Tag, TagKind};

    use crate::test_util::*;
    use crate::tests::create_test_mdk;

    fn fail(label: &str, scenario: &str, what: &str) -> ! {
        panic!("BOUNDED-COUNTEREXAMPLE {label}: scenario [{scenario}] {what}");
    }

    /// the valid key-package event of `keys`, with the tags of kind `replace` dropped and `with` appended, signed again
    fn rebuilt(base: &Event, keys: &Keys, replace: &TagKind, with: Vec<Tag>) -> Event {
        let mut tags: Vec<Tag> = base.tags.iter().filter(|t| &t.kind() != replace).cloned().collect();
        tags.extend(with);
        EventBuilder::new(Kind::MlsKeyPackage, base.content.clone()).tags(tags).sign_with_keys(keys).unwrap()
    }

    // C15 / C06: every key-package tag is checked against its grammar and against the package; nothing panics.
    // Scope: one valid key package; for each of the five mandatory tags a list of replacement values (listed below).
    #[test]
    fn key_package_tags_are_checked_and_never_panic() {
        let label = "strings_bounded.key_package_tags";
        let mdk = create_test_mdk();
        let keys = Keys::generate();
        let base = create_key_package_event(&mdk, &keys);
        if mdk.parse_key_package(&base).is_err() { fail(label, "the unmodified key-package event", "is refused"); }
        let i_kind = TagKind::i();
        let i_value = base.tags.iter().find(|t| t.kind() == i_kind).and_then(|t| t.content().map(|s| s.to_string())).expect("i tag");
        let half = i_value[..i_value.len() / 2].to_string();
        let mut flipped = i_value.clone().into_bytes(); let last = flipped.len() - 1; flipped[last] = if flipped[last] == b'0' { b'1' } else { b'0' };
        let flipped = String::from_utf8(flipped).unwrap();
        // (tag kind, values that must be accepted, values that must be refused)
        let custom = |n: &str| TagKind::Custom(n.to_string().into());
        let cases: Vec<(TagKind, &str, Vec<Vec<String>>, Vec<Vec<String>>)> = vec![
            (i_kind.clone(), "i", vec![vec![i_value.clone()]],
             vec![vec![half.clone()], vec![format!("{i_value}00")], vec![flipped.clone()], vec![String::new()], vec!["zz".into()], vec![i_value.clone(), i_value.clone()], vec![]]),
            (TagKind::MlsCiphersuite, "mls_ciphersuite", vec![vec!["0x0001".into()]],
             vec![vec!["0x0002".into()], vec!["0x001".into()], vec!["0x00011".into()], vec!["1x0001".into()], vec!["0x000g".into()], vec!["0é001".into()], vec!["0€01".into()], vec!["aé€".into()], vec!["€€".into()], vec!["".into()], vec![]]),
            (TagKind::MlsProtocolVersion, "mls_protocol_version", vec![vec!["1.0".into()]], vec![vec!["2.0".into()], vec!["1".into()], vec!["".into()], vec!["1.0 ".into()], vec![]]),
            (TagKind::MlsExtensions, "mls_extensions", vec![vec!["0x000a".into(), "0xf2ee".into()], vec!["0xf2ee".into(), "0x000a".into()], vec!["0x000A".into(), "0xF2EE".into()]],
             vec![vec!["0x000a".into()], vec!["0xf2ee".into()], vec!["0x000a".into(), "0xf2e".into()], vec!["0x000a".into(), "é€x".into()], vec!["0x000a".into(), "0é2ee".into()], vec![]]),
            (TagKind::Relays, "relays", vec![vec!["wss://relay.example".into()]], vec![vec!["not a url".into()], vec!["wss://ok.example".into(), "".into()], vec![]]),
        ];
        let _ = custom;
        for (kind, name, good, bad) in cases {
            for (values, want_ok) in good.iter().map(|v| (v, true)).chain(bad.iter().map(|v| (v, false))) {
                let ev = rebuilt(&base, &keys, &kind, vec![Tag::custom(kind.clone(), values.clone())]);
                let scen = format!("a valid key-package event whose `{name}` tag is replaced by one with the values {values:?}");
                match catch_unwind(AssertUnwindSafe(|| mdk.parse_key_package(&ev).is_ok())) {
                    Err(_) => fail(label, &scen, "parse_key_package PANICKED"),
                    Ok(ok) if ok != want_ok => fail(label, &scen, &format!("parse_key_package accepted = {ok}; the MIP-00 tag grammar / package binding says {want_ok}")),
                    Ok(_) => {}
                }
            }
            // a SECOND tag of the same kind that contradicts the valid first one makes the event ambiguous: refused (F29)
            if let Some(wrong) = bad.iter().find(|v| !v.is_empty()) {
                let valid_first: Vec<Tag> = base.tags.iter().filter(|t| t.kind() == kind).cloned().collect();
                let mut both = valid_first.clone(); both.push(Tag::custom(kind.clone(), wrong.clone()));
                let ev = rebuilt(&base, &keys, &kind, both);
                let scen = format!("a valid key-package event with a SECOND `{name}` tag carrying the values {wrong:?} after the valid one");
                match catch_unwind(AssertUnwindSafe(|| mdk.parse_key_package(&ev).is_ok())) {
                    Err(_) => fail(label, &scen, "parse_key_package PANICKED"),
                    Ok(true) => fail(label, &scen, "parse_key_package accepted the event (only the first tag of a kind is looked at)"),
                    Ok(false) => {}
                }
            }
            // the tag missing altogether is refused
            let ev = rebuilt(&base, &keys, &kind, vec![]);
            match catch_unwind(AssertUnwindSafe(|| mdk.parse_key_package(&ev).is_ok())) {
                Err(_) => fail(label, &format!("`{name}` tag missing"), "parse_key_package PANICKED"),
                Ok(true) => fail(label, &format!("`{name}` tag missing"), "parse_key_package accepted the event"),
                Ok(false) => {}
            }
        }
    }

    // C15 "the parsers refuse anything ambiguous or unbound: trailing bytes, a missing or non-base64 encoding tag": the content of a
    // key-package event / welcome rumor must be exactly ONE TLS object, and no encoding tag may carry anything but a recognised value.
    // Scope: one key package and one welcome; 1 and 3 trailing bytes; five encoding-tag combinations.
    #[test]
    fn trailing_bytes_and_stray_encoding_tags_are_refused() {
        use nostr::base64::Engine;
        use nostr::base64::engine::general_purpose::STANDARD as B64;
        let label = "strings_bounded.trailing_bytes_and_stray_encoding_tags";
        let mdk = create_test_mdk();
        let keys = Keys::generate();
        let base = create_key_package_event(&mdk, &keys);
        let with_content = |extra: &[u8]| -> Event {
            let mut bytes = B64.decode(&base.content).expect("base64 content");
            bytes.extend_from_slice(extra);
            EventBuilder::new(Kind::MlsKeyPackage, B64.encode(&bytes)).tags(base.tags.iter().cloned()).sign_with_keys(&keys).unwrap()
        };
        if mdk.parse_key_package(&with_content(&[])).is_err() { fail(label, "a valid key-package event re-encoded unchanged", "is refused"); }
        for extra in [&[0u8][..], &[0xAA, 0xBB, 0xCC][..]] {
            let scen = format!("a valid key-package event whose content carries the {} extra byte(s) {extra:?} after the key package", extra.len());
            match catch_unwind(AssertUnwindSafe(|| mdk.parse_key_package(&with_content(extra)).is_ok())) {
                Err(_) => fail(label, &scen, "parse_key_package PANICKED"),
                Ok(true) => fail(label, &scen, "parse_key_package ACCEPTED the event; C15 says trailing bytes are refused"),
                Ok(false) => {}
            }
        }
        let enc = |v: &[&str]| Tag::parse(v.iter().map(|s| s.to_string()).collect::<Vec<_>>()).unwrap();
        let enc_kind = TagKind::Custom("encoding".into());
        let combos: Vec<(&str, Vec<Tag>, bool)> = vec![
            ("[encoding, base64]", vec![enc(&["encoding", "base64"])], true),
            ("[encoding, hex] then [encoding, base64]", vec![enc(&["encoding", "hex"]), enc(&["encoding", "base64"])], false),
            ("[encoding, base64] then [encoding, hex]", vec![enc(&["encoding", "base64"]), enc(&["encoding", "hex"])], false),
            ("[encoding] (no value) then [encoding, base64]", vec![enc(&["encoding"]), enc(&["encoding", "base64"])], false),
            ("[encoding, hex]", vec![enc(&["encoding", "hex"])], false),
            ("no encoding tag", vec![], false),
        ];
        for (name, tags, want_ok) in combos {
            let ev = rebuilt(&base, &keys, &enc_kind, tags);
            let scen = format!("a valid key-package event whose encoding tags are: {name}");
            match catch_unwind(AssertUnwindSafe(|| mdk.parse_key_package(&ev).is_ok())) {
                Err(_) => fail(label, &scen, "parse_key_package PANICKED"),
                Ok(ok) if ok != want_ok => fail(label, &scen, &format!("parse_key_package accepted = {ok}; C15 (a missing or non-base64 encoding tag is refused) says {want_ok}")),
                Ok(_) => {}
            }
        }
        // the welcome rumor: its content must be exactly one MLS message
        let (alice, bob) = (create_test_mdk(), create_test_mdk());
        let (ak, bk) = (Keys::generate(), Keys::generate());
        let res = alice.create_group(&ak.public_key(), vec![create_key_package_event(&bob, &bk)], create_nostr_group_config_data(vec![ak.public_key()])).unwrap();
        let rumor = res.welcome_rumors[0].clone();
        for extra in [&[][..], &[0u8][..], &[0xAA, 0xBB, 0xCC][..]] {
            let mut bytes = B64.decode(&rumor.content).expect("base64 welcome");
            bytes.extend_from_slice(extra);
            let mut r = rumor.clone(); r.content = B64.encode(&bytes); r.id = None; r.ensure_id();
            let scen = format!("a valid welcome rumor whose content carries {} extra byte(s) after the MLS message", extra.len());
            let wrapper = nostr::EventId::from_slice(&[extra.len() as u8 + 1; 32]).unwrap();
            match catch_unwind(AssertUnwindSafe(|| bob.process_welcome(&wrapper, &r).is_ok())) {
                Err(_) => fail(label, &scen, "process_welcome PANICKED"),
                Ok(ok) if ok != extra.is_empty() => fail(label, &scen, &format!("process_welcome accepted = {ok}; C15 says {}", extra.is_empty())),
                Ok(_) => {}
            }
        }
    }

    // C15 "for every single-field mutation of a valid encoding": the library writes canonical, padded base64; a content whose padding was
    // stripped (one `=` or all of them) is another spelling of the same bytes and must be refused, or one invitation has several event ids.
    // Scope: welcomes of groups whose name length is varied until the content carries padding (0..=2 `=`), each with one / all `=` removed.
    #[test]
    fn non_canonical_base64_content_is_refused() {
        let label = "strings_bounded.non_canonical_base64_content_is_refused";
        let mut seen_padded = false;
        for extra in 0..6usize {
            let (ak, bk) = (Keys::generate(), Keys::generate());
            let (a, b) = (create_test_mdk(), create_test_mdk());
            let mut cfg = create_nostr_group_config_data(vec![ak.public_key()]);
            cfg.name = format!("g{}", "x".repeat(extra));
            let res = a.create_group(&ak.public_key(), vec![create_key_package_event(&b, &bk)], cfg).unwrap();
            let rumor = res.welcome_rumors[0].clone();
            let pad = rumor.content.chars().rev().take_while(|c| *c == '=').count();
            if pad == 0 { continue; }
            seen_padded = true;
            for strip in [1usize, pad] {
                let mut r = rumor.clone(); r.content.truncate(rumor.content.len() - strip); r.id = None; r.ensure_id();
                let scen = format!("a valid welcome rumor whose base64 content ends in {pad} `=`, with {strip} of them removed");
                match catch_unwind(AssertUnwindSafe(|| b.process_welcome(&nostr::EventId::from_slice(&[strip as u8 + 1; 32]).unwrap(), &r).is_ok())) {
                    Err(_) => fail(label, &scen, "process_welcome PANICKED"),
                    Ok(true) => fail(label, &scen, "process_welcome accepted a non-canonical spelling of the content"),
                    Ok(false) => {}
                }
            }
            if b.process_welcome(&nostr::EventId::all_zeros(), &rumor).is_err() { fail(label, "the canonical rumor", "is refused"); }
        }
        if !seen_padded { panic!("harness: no welcome content with padding was produced (not a counterexample)"); }
    }

    // C15 "whatever the library serialises it parses back ... welcome rumors", over the number of relays of the group: a welcome rumor that
    // create_group hands out must be accepted by the invited user's process_welcome. The case of a group WITHOUT relays FAILS on the unchanged
    // tree (known finding F27: create_group accepts an empty relay list, the rumor then carries an empty `relays` tag, which
    // validate_welcome_event refuses) and has its own test and label, so that nothing else hides behind the finding.
    fn welcome_round_trip(label: &str, n: usize) {
        let (ak, bk) = (Keys::generate(), Keys::generate());
        let (a, b) = (create_test_mdk(), create_test_mdk());
        let mut cfg = create_nostr_group_config_data(vec![ak.public_key()]);
        cfg.relays = (0..n).map(|i| nostr::RelayUrl::parse(&format!("wss://r{i}.example")).unwrap()).collect();
        let scen = format!("create_group with {n} relay(s), one invited user");
        let res = match a.create_group(&ak.public_key(), vec![create_key_package_event(&b, &bk)], cfg) { Ok(r) => r, Err(_) => return };   // refused at creation: nothing was serialised
        match catch_unwind(AssertUnwindSafe(|| b.process_welcome(&nostr::EventId::all_zeros(), &res.welcome_rumors[0]).map(|_| ()).map_err(|e| format!("{e:?}")))) {
            Err(_) => fail(label, &scen, "process_welcome PANICKED"),
            Ok(Err(e)) => fail(label, &scen, &format!("the welcome rumor handed out by create_group is refused by process_welcome: {e}")),
            Ok(Ok(())) => {}
        }
    }
    #[test]
    fn welcome_of_every_created_group_is_parsed_back() { for n in [1usize, 2, 3] { welcome_round_trip("strings_bounded.welcome_of_every_created_group_is_parsed_back", n); } }
    // the same for key-package events: what create_key_package_for_event writes, parse_key_package reads -- over the number of relays.
    // The case of NO relay FAILS on the unchanged tree (known finding F27, second face: the event carries an empty `relays` tag, which
    // validate_key_package_tags refuses); own test and label.
    fn key_package_round_trip(label: &str, n: usize) {
        let mdk = create_test_mdk();
        let keys = Keys::generate();
        let relays: Vec<nostr::RelayUrl> = (0..n).map(|i| nostr::RelayUrl::parse(&format!("wss://r{i}.example")).unwrap()).collect();
        let scen = format!("create_key_package_for_event with {n} relay(s)");
        let (content, tags, _) = match mdk.create_key_package_for_event(&keys.public_key(), relays) { Ok(x) => x, Err(_) => return };   // refused at creation: nothing was serialised
        let ev = EventBuilder::new(Kind::MlsKeyPackage, content).tags(tags).sign_with_keys(&keys).unwrap();
        match catch_unwind(AssertUnwindSafe(|| mdk.parse_key_package(&ev).map(|_| ()).map_err(|e| format!("{e:?}")))) {
            Err(_) => fail(label, &scen, "parse_key_package PANICKED"),
            Ok(Err(e)) => fail(label, &scen, &format!("the key-package event the library built is refused by parse_key_package: {e}")),
            Ok(Ok(())) => {}
        }
    }
    #[test]
    fn key_package_event_of_every_relay_count_is_parsed_back() { for n in [1usize, 2, 3] { key_package_round_trip("strings_bounded.key_package_event_of_every_relay_count_is_parsed_back", n); } }
    #[test]
    fn key_package_event_without_relays_is_parsed_back() { key_package_round_trip("strings_bounded.key_package_event_without_relays_is_parsed_back", 0); }
    #[test]
    fn welcome_of_a_group_without_relays_is_parsed_back() { welcome_round_trip("strings_bounded.welcome_of_a_group_without_relays_is_parsed_back", 0); }

    // C15 / C17: what create_imeta_tag writes, parse_imeta_tag reads back. Scope: the file names / MIME spellings below.
    #[cfg(feature = "mip04")]
    #[test]
    fn imeta_tag_round_trips() {
        let label = "strings_bounded.imeta_round_trip";
        let (ak, bk) = (Keys::generate(), Keys::generate());
        let (a, b) = (create_test_mdk(), create_test_mdk());
        let res = a.create_group(&ak.public_key(), vec![create_key_package_event(&b, &bk)], create_nostr_group_config_data(vec![ak.public_key()])).unwrap();
        let gid = res.group.mls_group_id.clone();
        a.merge_pending_commit(&gid).unwrap();
        let mgr = a.media_manager(gid.clone());
        let names = ["a.txt", "holiday photo 2024.txt", "two  spaces.txt", "tab\tname.txt", "ünï cödé.txt", "x y z", "m image/png", "notes.txt ", " scan 01.pdf", "  padded  ", "UPPER.TXT"];
        let mimes = ["text/plain", "Text/Plain", "text/plain; charset=utf-8"];
        for name in names { for mime in mimes {
            let scen = format!("file name {name:?}, MIME spelling {mime:?}, url with a query part");
            let upload = match catch_unwind(AssertUnwindSafe(|| mgr.encrypt_for_upload(b"payload", mime, name))) {
                Err(_) => fail(label, &scen, "encrypt_for_upload PANICKED"),
                Ok(Err(_)) => continue, // refused by the documented validation: nothing to round-trip
                Ok(Ok(u)) => u,
            };
            let url = "https://blossom.example/f?x=1";
            let tag = mgr.create_imeta_tag(&upload, url);
            let want = mgr.create_media_reference(&upload, url.to_string());
            match catch_unwind(AssertUnwindSafe(|| mgr.parse_imeta_tag(&tag))) {
                Err(_) => fail(label, &scen, "parse_imeta_tag PANICKED on a tag written by create_imeta_tag"),
                Ok(Err(e)) => fail(label, &scen, &format!("parse_imeta_tag refused a tag written by create_imeta_tag: {e:?}")),
                Ok(Ok(got)) => {
                    if got.filename != want.filename || got.mime_type != want.mime_type || got.original_hash != want.original_hash || got.nonce != want.nonce || got.url != want.url || got.scheme_version != want.scheme_version {
                        fail(label, &scen, &format!("parsed back (url, mime, filename, version) = ({:?}, {:?}, {:?}, {:?}); written = ({:?}, {:?}, {:?}, {:?})", got.url, got.mime_type, got.filename, got.scheme_version, want.url, want.mime_type, want.filename, want.scheme_version));
                    }
                    match mgr.decrypt_from_download(&upload.encrypted_data, &got) {
                        Ok(d) if d == b"payload" => {}
                        other => fail(label, &scen, &format!("the parsed reference does not decrypt the upload: {:?}", other.map(|d| d.len()))),
                    }
                }
            }
        } }
        // C17 "round-trips for all payloads": payload lengths around the block / tag sizes, 0 included (an empty file encrypts to the bare
        // 16-byte tag); a flipped byte of the upload is refused
        for len in [0usize, 1, 15, 16, 17, 31, 32, 33, 64, 1000] {
            let payload: Vec<u8> = (0..len).map(|i| (i * 7 + 3) as u8).collect();
            let scen = format!("a text/plain file of {len} byte(s)");
            let upload = match catch_unwind(AssertUnwindSafe(|| mgr.encrypt_for_upload(&payload, "text/plain", "f.txt"))) {
                Err(_) => fail(label, &scen, "encrypt_for_upload PANICKED"),
                Ok(Err(_)) => continue, // refused by the documented validation: nothing to round-trip
                Ok(Ok(u)) => u,
            };
            let reference = mgr.create_media_reference(&upload, "https://blossom.example/f".to_string());
            match catch_unwind(AssertUnwindSafe(|| mgr.decrypt_from_download(&upload.encrypted_data, &reference))) {
                Err(_) => fail(label, &scen, "decrypt_from_download PANICKED"),
                Ok(Ok(d)) if d == payload => {}
                Ok(other) => fail(label, &scen, &format!("an upload accepted by encrypt_for_upload does not decrypt back to the file: {:?}", other.map(|d| d.len()))),
            }
            let mut bad = upload.encrypted_data.clone(); let last = bad.len() - 1; bad[last] ^= 1;
            match catch_unwind(AssertUnwindSafe(|| mgr.decrypt_from_download(&bad, &reference))) {
                Err(_) => fail(label, &scen, "decrypt_from_download PANICKED on a tampered upload"),
                Ok(Ok(_)) => fail(label, &scen, "a tampered upload (last byte flipped) decrypts"),
                Ok(Err(_)) => {}
            }
        }
    }
    // C06 / C15: the decoder of the group-data extension never panics and accepts exactly the documented field lengths. This function IS
    // under contract (unit ext_codec); the bounded run is a second line for changes the contract unit cannot type-check (it models the four
    // optional byte fields with a wrapper type). Scope: each of the four optional fields with every length 0..=40, the others valid.
    #[test]
    fn group_data_extension_field_lengths_never_panic() {
        use crate::extension::types::{NostrGroupDataExtension, TlsNostrGroupDataExtension};
        let label = "strings_bounded.group_data_extension_field_lengths";
        let base = || TlsNostrGroupDataExtension { version: 2, nostr_group_id: [7u8; 32], name: b"n".to_vec(), description: b"d".to_vec(), admin_pubkeys: vec![], relays: vec![],
                                                   image_hash: vec![], image_key: vec![], image_nonce: vec![], image_upload_key: vec![] };
        for (field, want) in [("image_hash", 32usize), ("image_key", 32), ("image_nonce", 12), ("image_upload_key", 32)] {
            for len in 0..=40usize {
                let mut raw = base();
                let bytes = vec![9u8; len];
                match field { "image_hash" => raw.image_hash = bytes, "image_key" => raw.image_key = bytes, "image_nonce" => raw.image_nonce = bytes, _ => raw.image_upload_key = bytes }
                let scen = format!("group-data extension (version 2) whose {field} has {len} bytes, every other field valid");
                match catch_unwind(AssertUnwindSafe(|| NostrGroupDataExtension::from_raw(raw))) {
                    Err(_) => fail(label, &scen, "NostrGroupDataExtension::from_raw PANICS (C06: hostile input must get an error, not a panic)"),
                    Ok(r) => { let ok = len == 0 || len == want; if r.is_ok() != ok { fail(label, &scen, &format!("from_raw answered {} ; the documented lengths are 0 (absent) or {want}", if r.is_ok() { "Ok" } else { "Err" })); } }
                }
            }
        }
    }
}
