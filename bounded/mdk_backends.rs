// BOUNDED stand-in (NOT a proof): the whole library on the SQLite back end against the whole library on the in-memory
// back end. Two bystanders of the same group, one per back end, are fed the SAME event stream of a scripted history;
// after every event their observable state (epoch, group data, member set, relays, message ids + states, last-message
// pointer) must be equal. Appended by /verif/driver (engine "bounded") to crates/mdk-core/src/lib.rs of a scratch copy
// of /repo; run with  cargo test --offline -p mdk-core --lib verif_bounded_mdk
#[cfg(test)]
mod verif_bounded_mdk {
    use std::collections::BTreeSet;

    use mdk_sqlite_storage::MdkSqliteStorage;
    use mdk_storage_traits::{GroupId, MdkStorageProvider};
    use nostr::{Event, Keys};

    use crate::MDK;
    use crate::groups::NostrGroupDataUpdate;
    use crate::test_util::*;
    use crate::tests::create_test_mdk;

    #[derive(Debug, PartialEq, Clone)]
    struct Fingerprint {
        epoch: Option<u64>, name: Option<String>, description: Option<String>, state: Option<String>, nostr_group_id: Option<[u8; 32]>, admins: Option<usize>,
        members: Option<BTreeSet<String>>, relays: Option<BTreeSet<String>>, messages: Vec<(String, String, Option<u64>)>,
        // the pointer itself is NOT compared between the clients: with equal created_at the order is decided by processed_at, each client's own
        // wall clock (two messages processed across a second boundary on one client only) -- compared is whether it heads the client's own listing
        // of the messages that are not invalidated (the C18 sentence about the pointer)
        last_message_heads_own_listing: Option<bool>,
        detail: String,   // not compared; printed with a difference
    }
    fn fp<S: MdkStorageProvider>(m: &MDK<S>, gid: &GroupId) -> Fingerprint {
        let g = m.get_group(gid).ok().flatten();
        let mut messages: Vec<(String, String, Option<u64>)> = m.get_messages(gid, None).unwrap_or_default().into_iter().map(|x| (x.id.to_hex(), format!("{:?}", x.state), x.epoch)).collect();
        let listed_first = messages.iter().find(|x| x.1 != "EpochInvalidated").map(|x| x.0.clone());   // C18: first of the default order among the not invalidated
        let detail = format!("pointer {:?} at {:?}/{:?}; listing (id, created_at, processed_at, state) {:?}", g.as_ref().and_then(|g| g.last_message_id.map(|i| i.to_hex()[..6].to_string())), g.as_ref().and_then(|g| g.last_message_at), g.as_ref().and_then(|g| g.last_message_processed_at),
            m.get_messages(gid, None).unwrap_or_default().iter().map(|x| (x.id.to_hex()[..6].to_string(), x.created_at.as_secs(), x.processed_at.as_secs(), format!("{:?}", x.state))).collect::<Vec<_>>());
        messages.sort();
        Fingerprint {
            epoch: g.as_ref().map(|g| g.epoch), name: g.as_ref().map(|g| g.name.clone()), description: g.as_ref().map(|g| g.description.clone()), state: g.as_ref().map(|g| format!("{:?}", g.state)),
            nostr_group_id: g.as_ref().map(|g| g.nostr_group_id), admins: g.as_ref().map(|g| g.admin_pubkeys.len()),
            members: m.get_members(gid).ok().map(|s| s.into_iter().map(|p| p.to_hex()).collect()), relays: m.get_relays(gid).ok().map(|s| s.into_iter().map(|r| r.to_string()).collect()),
            last_message_heads_own_listing: g.as_ref().map(|g| g.last_message_id.map(|i| i.to_hex()) == listed_first), messages, detail,
        }
    }
    fn diff(a: &Fingerprint, b: &Fingerprint) -> String {
        let mut d = vec![];
        macro_rules! f { ($n:ident) => { if a.$n != b.$n { d.push(format!("{}: memory-backed {:?} / SQLite-backed {:?}", stringify!($n), a.$n, b.$n)); } } }
        f!(epoch); f!(name); f!(description); f!(state); f!(nostr_group_id); f!(admins); f!(members); f!(relays); f!(last_message_heads_own_listing);
        if a.last_message_heads_own_listing != b.last_message_heads_own_listing { d.push(format!("memory-backed: {} / SQLite-backed: {}", a.detail, b.detail)); }
        if a.messages != b.messages {
            let only_a: Vec<_> = a.messages.iter().filter(|m| !b.messages.contains(m)).collect(); let only_b: Vec<_> = b.messages.iter().filter(|m| !a.messages.contains(m)).collect();
            d.push(format!("messages (id, state, epoch) only on the memory-backed client {:?} / only on the SQLite-backed client {:?}", only_a, only_b));
        }
        d.join(" | ")
    }
    /// C08 mirror: the stored record (epoch, name, description, admins, Nostr group id, image hash) and relay set against the group-data
    /// extension and epoch of the client's own MLS state; None while the client is not (or no longer) an active member
    fn mirror_diff<S: MdkStorageProvider>(m: &MDK<S>, gid: &GroupId) -> Option<String> {
        let g = m.get_group(gid).ok().flatten()?;
        if format!("{:?}", g.state) != "Active" { return None; }
        let mls = m.load_mls_group(gid).ok().flatten()?;
        if !mls.is_active() { return None; }
        let ext = crate::extension::NostrGroupDataExtension::from_group(&mls).ok()?;
        let mut d = vec![];
        if g.epoch != mls.epoch().as_u64() { d.push(format!("epoch: record {} / MLS {}", g.epoch, mls.epoch().as_u64())); }
        if g.name != ext.name { d.push(format!("name: record {:?} / MLS {:?}", g.name, ext.name)); }
        if g.description != ext.description { d.push("description".to_string()); }
        if g.admin_pubkeys != ext.admins { d.push(format!("admins: record {} / MLS {}", g.admin_pubkeys.len(), ext.admins.len())); }
        if g.nostr_group_id != ext.nostr_group_id { d.push("nostr group id".to_string()); }
        if g.image_hash != ext.image_hash { d.push("image hash".to_string()); }
        let relays: BTreeSet<String> = m.get_relays(gid).ok()?.into_iter().map(|r| r.to_string()).collect();
        let want: BTreeSet<String> = ext.relays.iter().map(|r| r.to_string()).collect();
        if relays != want { d.push(format!("relays: stored {relays:?} / MLS {want:?}")); }
        if d.is_empty() { None } else { Some(d.join("; ")) }
    }
    struct World { a: MDK<mdk_memory_storage::MdkMemoryStorage>, b: MDK<mdk_memory_storage::MdkMemoryStorage>, ak: Keys, bk: Keys,
                   mem: MDK<mdk_memory_storage::MdkMemoryStorage>, sql: MDK<MdkSqliteStorage>, gid: GroupId, log: Vec<String> }
    fn setup() -> World {
        let (ak, bk, mk, sk) = (Keys::generate(), Keys::generate(), Keys::generate(), Keys::generate());
        let (a, b, mem) = (create_test_mdk(), create_test_mdk(), create_test_mdk());
        let sql = MDK::new(MdkSqliteStorage::new_unencrypted(":memory:").unwrap());
        let res = a.create_group(&ak.public_key(), vec![create_key_package_event(&b, &bk), create_key_package_event(&mem, &mk), create_key_package_event(&sql, &sk)],
                                 create_nostr_group_config_data(vec![ak.public_key(), bk.public_key()])).unwrap();
        let gid = res.group.mls_group_id.clone();
        a.merge_pending_commit(&gid).unwrap();
        let w = b.process_welcome(&nostr::EventId::all_zeros(), &res.welcome_rumors[0]).unwrap(); b.accept_welcome(&w).unwrap();
        let w = mem.process_welcome(&nostr::EventId::all_zeros(), &res.welcome_rumors[1]).unwrap(); mem.accept_welcome(&w).unwrap();
        let w = sql.process_welcome(&nostr::EventId::all_zeros(), &res.welcome_rumors[2]).unwrap(); sql.accept_welcome(&w).unwrap();
        World { a, b, ak, bk, mem, sql, gid, log: vec![] }
    }
    impl World {
        /// feed one event to both bystanders and compare what they show afterwards
        fn deliver(&mut self, label: &str, what: &str, e: &Event) {
            let rm = self.mem.process_message(e).map(|r| format!("{:?}", std::mem::discriminant(&r))).map_err(|x| format!("{x:?}").chars().take(40).collect::<String>());
            let rs = self.sql.process_message(e).map(|r| format!("{:?}", std::mem::discriminant(&r))).map_err(|x| format!("{x:?}").chars().take(40).collect::<String>());
            self.log.push(what.to_string());
            if rm != rs { panic!("BOUNDED-COUNTEREXAMPLE {label}: scenario [history: {}] process_message answered {rm:?} on the memory-backed client and {rs:?} on the SQLite-backed client", self.log.join(" ; ")); }
            let (fm, fs) = (fp(&self.mem, &self.gid), fp(&self.sql, &self.gid));
            // the two bystanders are different members: their own identity is in both member sets, so the fingerprints are comparable as they are
            if !diff(&fm, &fs).is_empty() { panic!("BOUNDED-COUNTEREXAMPLE {label}: scenario [history: {}] the two bystanders differ afterwards: {}", self.log.join(" ; "), diff(&fm, &fs)); }
            // C08, stated directly: on each bystander the stored record and relay set are what its MLS state says (checked while the
            // client is a member: an evicted client's MLS group no longer carries the current data)
            if let Some(d) = mirror_diff(&self.mem, &self.gid) { panic!("BOUNDED-COUNTEREXAMPLE {label}: scenario [history: {}] the stored record of the memory-backed client does not mirror its MLS state: {d}", self.log.join(" ; ")); }
            if let Some(d) = mirror_diff(&self.sql, &self.gid) { panic!("BOUNDED-COUNTEREXAMPLE {label}: scenario [history: {}] the stored record of the SQLite-backed client does not mirror its MLS state: {d}", self.log.join(" ; ")); }
            for (who, f) in [("memory-backed", &fm), ("SQLite-backed", &fs)] {
                if f.last_message_heads_own_listing == Some(false) { panic!("BOUNDED-COUNTEREXAMPLE {label}: scenario [history: {}] the last-message pointer of the {who} client is not the first not-invalidated message of its default listing: {}", self.log.join(" ; "), f.detail); }
            }
        }
        fn alice_msg(&mut self, label: &str, text: &str) -> Event { let e = self.a.create_message(&self.gid, create_test_rumor(&self.ak, text)).unwrap(); self.deliver(label, &format!("alice sends {text:?}"), &e); e }
    }

    // C01 / C02 / C08: commit race resolved by rollback, with traffic before, between and after; then re-delivery of everything.
    #[test]
    fn race_and_rollback_history() {
        let label = "mdk_backends_bounded.race_and_rollback_history";
        for loser_first in [true, false] {
            let mut w = setup();
            w.alice_msg(label, "m1"); w.alice_msg(label, "m2");
            let c0 = w.a.update_group_data(&w.gid, NostrGroupDataUpdate::new().name("renamed".to_string())).unwrap().evolution_event;
            w.a.merge_pending_commit(&w.gid).unwrap(); w.b.process_message(&c0).unwrap();
            w.deliver(label, "alice's rename commit", &c0);
            w.alice_msg(label, "m3 (epoch 2)");
            // race on epoch 2: bob first (winner), alice one second later (loser)
            let bob_commit = w.b.self_update(&w.gid).unwrap().evolution_event;
            std::thread::sleep(std::time::Duration::from_millis(1100));
            let alice_commit = w.a.self_update(&w.gid).unwrap().evolution_event;
            let in_loser_epoch = { w.a.merge_pending_commit(&w.gid).unwrap(); w.a.create_message(&w.gid, create_test_rumor(&w.ak, "sent on the losing branch")).unwrap() };
            if loser_first {
                w.deliver(label, "alice's (losing) commit", &alice_commit);
                w.deliver(label, "a message of the losing branch", &in_loser_epoch);
                w.deliver(label, "bob's (winning) commit -> rollback", &bob_commit);
            } else {
                w.deliver(label, "bob's (winning) commit", &bob_commit);
                w.deliver(label, "alice's (losing) commit", &alice_commit);
                w.deliver(label, "a message of the losing branch", &in_loser_epoch);
            }
            w.b.merge_pending_commit(&w.gid).unwrap();
            let after = w.b.create_message(&w.gid, create_test_rumor(&w.bk, "bob after the race")).unwrap();
            w.deliver(label, "bob's message on the winning branch", &after);
            for (what, e) in [("re-delivery: rename commit", &c0), ("re-delivery: bob's commit", &bob_commit), ("re-delivery: alice's commit", &alice_commit), ("re-delivery: bob's message", &after)] {
                w.deliver(label, what, e);
            }
            let f = fp(&w.sql, &w.gid);
            if f.messages.iter().filter(|m| m.1 == "Processed").count() < 4 {
                panic!("BOUNDED-COUNTEREXAMPLE {label}: scenario [history: {}] the SQLite-backed bystander ends with fewer than the 4 valid messages of the winning branch (m1, m2, m3, bob's): {:?}", w.log.join(" ; "), f.messages);
            }
        }
    }

    // C01 with a group-data update among the racers: two admins commit on the same epoch, the LOSING commit rotates the group's Nostr
    // group id. Whichever of the two reaches a bystander first, once both were offered (and offered again) the bystander stands on the
    // winning branch: epoch 2 of bob's commit, the old Nostr group id. Scope: 2 delivery orders, both back ends, 2 re-deliveries each.
    // Its own test and label: see known_findings.txt if the unchanged tree fails it.
    #[test]
    fn race_lost_by_a_commit_that_rotates_the_nostr_group_id_history() {
        let label = "mdk_backends_bounded.race_lost_by_a_commit_that_rotates_the_nostr_group_id_history";
        let mut ends = vec![];
        for loser_first in [true, false] {
            let mut w = setup();
            w.alice_msg(label, "m1");
            let old_id = fp(&w.mem, &w.gid).nostr_group_id;
            // race on epoch 1: bob's self-update first (winner), alice's rotation one second later (loser)
            let bob_commit = w.b.self_update(&w.gid).unwrap().evolution_event;
            std::thread::sleep(std::time::Duration::from_millis(1100));
            let alice_commit = w.a.update_group_data(&w.gid, NostrGroupDataUpdate::new().nostr_group_id([0x77; 32])).unwrap().evolution_event;
            if loser_first {
                w.deliver(label, "alice's (losing) commit, which rotates the Nostr group id", &alice_commit);
                w.deliver(label, "bob's (winning, earlier) commit for the same epoch, tagged with the old Nostr group id", &bob_commit);
            } else {
                w.deliver(label, "bob's (winning, earlier) commit", &bob_commit);
                w.deliver(label, "alice's (losing) commit, which rotates the Nostr group id", &alice_commit);
            }
            for (what, e) in [("re-delivery: bob's commit", &bob_commit), ("re-delivery: alice's commit", &alice_commit), ("re-delivery: bob's commit", &bob_commit)] { w.deliver(label, what, e); }
            w.b.merge_pending_commit(&w.gid).unwrap();
            let want_epoch = w.b.get_group(&w.gid).unwrap().unwrap().epoch;
            for (who, f) in [("memory-backed", fp(&w.mem, &w.gid)), ("SQLite-backed", fp(&w.sql, &w.gid))] {
                if f.epoch != Some(want_epoch) || f.nostr_group_id != old_id {
                    panic!("BOUNDED-COUNTEREXAMPLE {label}: scenario [history: {}] the {who} bystander does not end on the winning branch: expected epoch {want_epoch} of bob's commit and the OLD Nostr group id ; got epoch {:?}, Nostr group id {}",
                           w.log.join(" ; "), f.epoch, if f.nostr_group_id == old_id { "old" } else { "rotated (alice's losing commit)" });
                }
            }
            // and it can follow the winner: a message bob sends on the winning branch is read
            let after = w.b.create_message(&w.gid, create_test_rumor(&w.bk, "bob after the race")).unwrap();
            w.deliver(label, "bob's message on the winning branch", &after);
            let f = fp(&w.sql, &w.gid);
            if !f.messages.iter().any(|m| m.0 == after.id.to_hex() || m.1 == "Processed" && m.2 == Some(want_epoch)) {
                panic!("BOUNDED-COUNTEREXAMPLE {label}: scenario [history: {}] the SQLite-backed bystander cannot read the winner's message of epoch {want_epoch}: {:?}", w.log.join(" ; "), f.messages);
            }
            ends.push((f.epoch, f.nostr_group_id));
        }
        if ends[0] != ends[1] { panic!("BOUNDED-COUNTEREXAMPLE {label}: scenario [the same two commits in the two delivery orders] the bystander ends in {:?} (loser first) and {:?} (winner first)", ends[0], ends[1]); }
    }

    // C01 / C03 with a removal among the racers: two admins commit on the same epoch, the LOSING commit removes the two bystanders. A
    // bystander that applies the loser first is evicted; when the winner (in which it is still a member) arrives it must come back:
    // in both delivery orders, after re-delivery, both bystanders are active members on the winning branch. Scope: 2 delivery orders,
    // both back ends, 3 re-deliveries. Its own test and label: see known_findings.txt if the unchanged tree fails it.
    #[test]
    fn race_lost_by_a_commit_that_removes_the_receiver_history() {
        let label = "mdk_backends_bounded.race_lost_by_a_commit_that_removes_the_receiver_history";
        for loser_first in [true, false] {
            let mut w = setup();
            w.alice_msg(label, "m1");
            let bystanders: Vec<nostr::PublicKey> = w.a.get_members(&w.gid).unwrap().into_iter().filter(|p| *p != w.ak.public_key() && *p != w.bk.public_key()).collect();
            let bob_commit = w.b.self_update(&w.gid).unwrap().evolution_event;
            std::thread::sleep(std::time::Duration::from_millis(1100));
            let alice_commit = w.a.remove_members(&w.gid, &bystanders).unwrap().evolution_event;
            if loser_first {
                w.deliver(label, "alice's (losing) commit, which removes both bystanders", &alice_commit);
                w.deliver(label, "bob's (winning, earlier) commit for the same epoch, in which both are still members", &bob_commit);
            } else {
                w.deliver(label, "bob's (winning, earlier) commit", &bob_commit);
                w.deliver(label, "alice's (losing) commit, which removes both bystanders", &alice_commit);
            }
            for (what, e) in [("re-delivery: bob's commit", &bob_commit), ("re-delivery: alice's commit", &alice_commit), ("re-delivery: bob's commit", &bob_commit)] { w.deliver(label, what, e); }
            w.b.merge_pending_commit(&w.gid).unwrap();
            let want_epoch = w.b.get_group(&w.gid).unwrap().unwrap().epoch;
            for (who, f) in [("memory-backed", fp(&w.mem, &w.gid)), ("SQLite-backed", fp(&w.sql, &w.gid))] {
                if f.epoch != Some(want_epoch) || f.state.as_deref() != Some("Active") || f.members.as_ref().map(|m| m.len()) != Some(4) {
                    panic!("BOUNDED-COUNTEREXAMPLE {label}: scenario [history: {}] the {who} bystander does not end as an active member on the winning branch: expected epoch {want_epoch}, state Active, 4 members ; got epoch {:?}, state {:?}, members {:?}",
                           w.log.join(" ; "), f.epoch, f.state, f.members.as_ref().map(|m| m.len()));
                }
            }
            let after = w.b.create_message(&w.gid, create_test_rumor(&w.bk, "bob after the race")).unwrap();
            w.deliver(label, "bob's message on the winning branch", &after);
            let f = fp(&w.sql, &w.gid);
            if !f.messages.iter().any(|m| m.0 == after.id.to_hex()) && !f.messages.iter().any(|m| m.1 == "Processed" && m.2 == Some(want_epoch)) {
                panic!("BOUNDED-COUNTEREXAMPLE {label}: scenario [history: {}] the SQLite-backed bystander cannot read the winner's message of epoch {want_epoch}: {:?}", w.log.join(" ; "), f.messages);
            }
        }
    }

    // C18 "the cached last-message pointer always designates the first message of the default order among messages that are not
    // invalidated", after a rollback that follows a LATE message: a message of epoch n reaches the bystanders after they applied the (losing)
    // commit that closed epoch n; it is stored and becomes the last message; the winning commit arrives, the rollback restores the group
    // row of snapshot time -- pointer included -- and the late message, which is still valid, is no longer designated.
    // FAILS on the unchanged tree = known finding F30; its own test and label so that nothing else hides behind it.
    #[test]
    fn late_message_then_rollback_pointer_history() {
        let label = "mdk_backends_bounded.late_message_then_rollback_pointer_history";
        let mut w = setup();
        w.alice_msg(label, "m1");
        let bob_commit = w.b.self_update(&w.gid).unwrap().evolution_event;
        std::thread::sleep(std::time::Duration::from_millis(1100));
        let late = w.a.create_message(&w.gid, create_test_rumor(&w.ak, "m2 (epoch 1, delivered late)")).unwrap();
        let alice_commit = w.a.self_update(&w.gid).unwrap().evolution_event;
        w.a.merge_pending_commit(&w.gid).unwrap();
        w.deliver(label, "alice's (losing) commit", &alice_commit);
        w.deliver(label, "alice's message of the epoch before that commit, arriving late", &late);
        w.deliver(label, "bob's (winning, one second older) commit -> rollback", &bob_commit);
    }

    // C01 / C07 / C02 (+ what C11 asks of the SQLite back end): the SQLite-backed bystander is closed and re-opened on its database
    // file between events; the memory-backed one keeps running. Scope: one history with a race resolved AFTER a restart and
    // re-deliveries after another restart.
    #[test]
    fn restart_history() {
        let label = "mdk_backends_bounded.restart_history";
        let dir = std::env::temp_dir().join(format!("verif-bounded-{}-{}", std::process::id(), std::time::SystemTime::now().duration_since(std::time::UNIX_EPOCH).unwrap().as_nanos()));
        std::fs::create_dir_all(&dir).unwrap();
        let db = dir.join("client.db");
        let open = || MDK::new(MdkSqliteStorage::new_unencrypted(&db).unwrap());
        let result = std::panic::catch_unwind(std::panic::AssertUnwindSafe(|| {
            let (ak, bk, mk, sk) = (Keys::generate(), Keys::generate(), Keys::generate(), Keys::generate());
            let (a, b, mem) = (create_test_mdk(), create_test_mdk(), create_test_mdk());
            let mut sql = open();
            let res = a.create_group(&ak.public_key(), vec![create_key_package_event(&b, &bk), create_key_package_event(&mem, &mk), create_key_package_event(&sql, &sk)],
                                     create_nostr_group_config_data(vec![ak.public_key(), bk.public_key()])).unwrap();
            let gid = res.group.mls_group_id.clone();
            a.merge_pending_commit(&gid).unwrap();
            let w = b.process_welcome(&nostr::EventId::all_zeros(), &res.welcome_rumors[0]).unwrap(); b.accept_welcome(&w).unwrap();
            let w = mem.process_welcome(&nostr::EventId::all_zeros(), &res.welcome_rumors[1]).unwrap(); mem.accept_welcome(&w).unwrap();
            let w = sql.process_welcome(&nostr::EventId::all_zeros(), &res.welcome_rumors[2]).unwrap(); sql.accept_welcome(&w).unwrap();
            let mut log: Vec<String> = vec![];
            let deliver = |sql: &MDK<MdkSqliteStorage>, log: &mut Vec<String>, what: &str, e: &Event| {
                let rm = mem.process_message(e).map(|r| format!("{:?}", std::mem::discriminant(&r))).map_err(|x| format!("{x:?}").chars().take(40).collect::<String>());
                let rs = sql.process_message(e).map(|r| format!("{:?}", std::mem::discriminant(&r))).map_err(|x| format!("{x:?}").chars().take(40).collect::<String>());
                log.push(what.to_string());
                if rm != rs { panic!("BOUNDED-COUNTEREXAMPLE {label}: scenario [history: {}] process_message answered {rm:?} on the memory-backed client (never restarted) and {rs:?} on the SQLite-backed client (restarted where noted)", log.join(" ; ")); }
                let (fm, fs) = (fp(&mem, &gid), fp(sql, &gid));
                if !diff(&fm, &fs).is_empty() { panic!("BOUNDED-COUNTEREXAMPLE {label}: scenario [history: {}] the two bystanders differ afterwards (memory-backed never restarted): {}", log.join(" ; "), diff(&fm, &fs)); }
            };
            let m1 = a.create_message(&gid, create_test_rumor(&ak, "m1")).unwrap(); deliver(&sql, &mut log, "alice sends m1", &m1);
            let c1 = a.update_group_data(&gid, NostrGroupDataUpdate::new().name("one".to_string())).unwrap().evolution_event;
            a.merge_pending_commit(&gid).unwrap(); b.process_message(&c1).unwrap();
            std::thread::sleep(std::time::Duration::from_millis(1100)); // the commit is applied a second after it was created
            deliver(&sql, &mut log, "alice's commit c1 (rename)", &c1);
            let m2 = a.create_message(&gid, create_test_rumor(&ak, "m2 (epoch 2)")).unwrap(); deliver(&sql, &mut log, "alice sends m2", &m2);
            // race on epoch 2; the loser is applied BEFORE the restart, the winner arrives AFTER it
            let bob_commit = b.self_update(&gid).unwrap().evolution_event;
            std::thread::sleep(std::time::Duration::from_millis(1100));
            let alice_commit = a.self_update(&gid).unwrap().evolution_event;
            deliver(&sql, &mut log, "alice's (losing) commit", &alice_commit);
            drop(sql); sql = open(); log.push("RESTART of the SQLite-backed client".to_string());
            // after a restart the commit timestamps of the snapshots are gone: the documented behaviour is that a re-loaded snapshot is
            // never beaten, so BOTH clients must be compared only on events that do not depend on it; re-deliveries must change nothing
            deliver(&sql, &mut log, "re-delivery of c1 after the restart", &c1);
            deliver(&sql, &mut log, "re-delivery of m1 after the restart", &m1);
            deliver(&sql, &mut log, "re-delivery of alice's commit after the restart", &alice_commit);
            a.merge_pending_commit(&gid).unwrap();
            let m3 = a.create_message(&gid, create_test_rumor(&ak, "m3 (alice's branch)")).unwrap(); deliver(&sql, &mut log, "alice sends m3 on her branch", &m3);
            drop(sql); sql = open(); log.push("RESTART of the SQLite-backed client".to_string());
            deliver(&sql, &mut log, "re-delivery of m3 after the second restart", &m3);
            let _ = bob_commit;
        }));
        let _ = std::fs::remove_dir_all(&dir);
        if let Err(e) = result { std::panic::resume_unwind(e); }
    }

    // C08 / C05 / C03: group data, relays and id rotation, admin change, a removal of the bystanders' peer, traffic after each step.
    #[test]
    fn group_data_and_roster_history() {
        let label = "mdk_backends_bounded.group_data_and_roster_history";
        let mut w = setup();
        let steps: Vec<(&str, NostrGroupDataUpdate)> = vec![
            ("description", NostrGroupDataUpdate::new().description("new description".to_string())),
            ("nostr group id rotation", NostrGroupDataUpdate::new().nostr_group_id([7u8; 32])),
            ("relays", NostrGroupDataUpdate::new().relays(vec![nostr::RelayUrl::parse("wss://one.example").unwrap(), nostr::RelayUrl::parse("wss://two.example").unwrap()])),
            ("image set", NostrGroupDataUpdate::new().image_hash(Some([1u8; 32])).image_key(Some([2u8; 32])).image_nonce(Some([3u8; 12]))),
            ("image cleared", NostrGroupDataUpdate::new().image_hash(None)),
        ];
        // C08 "matched by the Nostr group id currently in force": an undecryptable kind:445 event tagged with the group's FIRST id
        // fails before the rotation; re-delivered while that id is in force it is attributed to the group, re-delivered after the
        // rotation it names an id no group holds and must not be attributed to any group (PreviouslyFailed) -- on both back ends
        let first_id = w.mem.get_group(&w.gid).unwrap().unwrap().nostr_group_id;
        let stray = nostr::EventBuilder::new(nostr::Kind::MlsGroupMessage, "not-a-valid-ciphertext").tag(nostr::Tag::custom(nostr::TagKind::h(), [hex::encode(first_id)])).sign_with_keys(&Keys::generate()).unwrap();
        let attribution = |m: &dyn Fn(&Event) -> Result<crate::messages::MessageProcessingResult, crate::Error>, e: &Event| -> String { match m(e) { Ok(crate::messages::MessageProcessingResult::Unprocessable { mls_group_id }) => format!("Unprocessable for group {}", hex::encode(mls_group_id.as_slice())), Ok(crate::messages::MessageProcessingResult::PreviouslyFailed) => "PreviouslyFailed (no group)".to_string(), Ok(_) => "another Ok result".to_string(), Err(_) => "Err".to_string() } };
        let _ = w.mem.process_message(&stray); let _ = w.sql.process_message(&stray);
        w.log.push("an undecryptable event tagged with the group's first Nostr id fails".into());
        for (who, got) in [("memory-backed", attribution(&|e| w.mem.process_message(e), &stray)), ("SQLite-backed", attribution(&|e| w.sql.process_message(e), &stray))] {
            let want = format!("Unprocessable for group {}", hex::encode(w.gid.as_slice()));
            if got != want { panic!("BOUNDED-COUNTEREXAMPLE {label}: scenario [history: {} ; the same event again while that id is in force] the {who} client answers {got:?}, expected {want:?}", w.log.join(" ; ")); }
        }
        for (what, upd) in steps {
            let c = w.a.update_group_data(&w.gid, upd).unwrap().evolution_event;
            w.a.merge_pending_commit(&w.gid).unwrap(); w.b.process_message(&c).unwrap();
            w.deliver(label, &format!("alice's commit: {what}"), &c);
            if what == "nostr group id rotation" {
                for (who, got) in [("memory-backed", attribution(&|e| w.mem.process_message(e), &stray)), ("SQLite-backed", attribution(&|e| w.sql.process_message(e), &stray))] {
                    if got != "PreviouslyFailed (no group)" { panic!("BOUNDED-COUNTEREXAMPLE {label}: scenario [history: {} ; the failed event tagged with the rotated-away id is delivered again] the {who} client answers {got:?}: an id no group holds any more must not match a group", w.log.join(" ; ")); }
                }
            }
            let text = format!("after {what}");
            w.alice_msg(label, &text);
        }
        let c = w.a.remove_members(&w.gid, &[w.bk.public_key()]).unwrap().evolution_event;
        w.a.merge_pending_commit(&w.gid).unwrap();
        w.deliver(label, "alice removes bob", &c);
        w.alice_msg(label, "after the removal");
    }

    // C03 / C05 / C07: a member joins and leaves by proposal (auto-committed by the admin, proposal re-delivered), then both
    // bystanders are removed and are fed a later message and the removal commit again.
    #[test]
    fn eviction_and_leave_history() {
        let label = "mdk_backends_bounded.eviction_and_leave_history";
        let mut w = setup();
        w.alice_msg(label, "m1");
        // a third member carol joins, then leaves by proposal; alice auto-commits
        let ck = Keys::generate(); let c = create_test_mdk();
        let add = w.a.add_members(&w.gid, &[create_key_package_event(&c, &ck)]).unwrap();
        w.a.merge_pending_commit(&w.gid).unwrap(); w.b.process_message(&add.evolution_event).unwrap();
        w.deliver(label, "alice adds carol", &add.evolution_event);
        let wl = c.process_welcome(&nostr::EventId::all_zeros(), &add.welcome_rumors.as_ref().unwrap()[0]).unwrap(); c.accept_welcome(&wl).unwrap();
        let p = c.leave_group(&w.gid).unwrap().evolution_event;
        w.deliver(label, "carol's leave proposal", &p);
        let commit = match w.a.process_message(&p).unwrap() { crate::messages::MessageProcessingResult::Proposal(u) => u.evolution_event, o => panic!("{o:?}") };
        w.a.merge_pending_commit(&w.gid).unwrap(); w.b.process_message(&p).ok(); w.b.process_message(&commit).unwrap();
        w.deliver(label, "alice's auto-commit of the leave", &commit);
        w.deliver(label, "re-delivery of the leave proposal", &p);
        w.alice_msg(label, "after carol left");
        // bob (admin) removes BOTH bystanders; afterwards they are fed more events
        let sk: Vec<nostr::PublicKey> = w.mem.get_members(&w.gid).unwrap().into_iter().filter(|p| *p != w.ak.public_key() && *p != w.bk.public_key()).collect();
        let rm = w.b.remove_members(&w.gid, &sk).unwrap().evolution_event;
        w.b.merge_pending_commit(&w.gid).unwrap(); w.a.process_message(&rm).unwrap();
        w.deliver(label, "bob removes both bystanders", &rm);
        let later = w.a.create_message(&w.gid, create_test_rumor(&w.ak, "after the eviction")).unwrap();
        w.deliver(label, "a message sent after their eviction", &later);
        w.deliver(label, "re-delivery of the removal commit", &rm);
        if fp(&w.sql, &w.gid).state.as_deref() != Some("Inactive") { panic!("BOUNDED-COUNTEREXAMPLE {label}: scenario [history: {}] the evicted SQLite-backed client does not show the group as Inactive", w.log.join(" ; ")); }
    }
    // C03: a user may hold several leaves (one per client, each joined with its own key package). Removing the USER evicts every one
    // of their clients: afterwards none of them reads or sends. One of the two clients is memory-backed, the other SQLite-backed.
    // Scope: one user with two clients joined in both orders, one removal, one later message, the removal re-delivered.
    #[test]
    fn removed_user_with_two_clients_history() {
        use crate::messages::MessageProcessingResult;
        let label = "mdk_backends_bounded.removed_user_with_two_clients_history";
        for sqlite_joins_first in [false, true] {
            let (ak, uk) = (Keys::generate(), Keys::generate());
            let a = create_test_mdk();
            let mem = create_test_mdk();
            let sql = MDK::new(MdkSqliteStorage::new_unencrypted(":memory:").unwrap());
            let mut log = vec![format!("the user's {} client joins at creation, the other by a later add", if sqlite_joins_first { "SQLite-backed" } else { "memory-backed" })];
            let (kp_first, kp_second) = if sqlite_joins_first { (create_key_package_event(&sql, &uk), create_key_package_event(&mem, &uk)) } else { (create_key_package_event(&mem, &uk), create_key_package_event(&sql, &uk)) };
            let res = a.create_group(&ak.public_key(), vec![kp_first], create_nostr_group_config_data(vec![ak.public_key()])).unwrap();
            let gid = res.group.mls_group_id.clone();
            a.merge_pending_commit(&gid).unwrap();
            let z = nostr::EventId::all_zeros();
            if sqlite_joins_first { let w = sql.process_welcome(&z, &res.welcome_rumors[0]).unwrap(); sql.accept_welcome(&w).unwrap(); } else { let w = mem.process_welcome(&z, &res.welcome_rumors[0]).unwrap(); mem.accept_welcome(&w).unwrap(); }
            let add = a.add_members(&gid, &[kp_second]).unwrap();
            a.merge_pending_commit(&gid).unwrap();
            let wr = &add.welcome_rumors.as_ref().unwrap()[0];
            if sqlite_joins_first { sql.process_message(&add.evolution_event).unwrap(); let w = mem.process_welcome(&z, wr).unwrap(); mem.accept_welcome(&w).unwrap(); }
            else { mem.process_message(&add.evolution_event).unwrap(); let w = sql.process_welcome(&z, wr).unwrap(); sql.accept_welcome(&w).unwrap(); }
            let before = a.create_message(&gid, create_test_rumor(&ak, "while the user is a member")).unwrap();
            log.push("alice sends a message".into());
            let rm_ = mem.process_message(&before); let rs_ = sql.process_message(&before);
            if !matches!(rm_, Ok(MessageProcessingResult::ApplicationMessage(_))) || !matches!(rs_, Ok(MessageProcessingResult::ApplicationMessage(_))) { panic!("harness: both clients of the member must read the message (not a counterexample): {rm_:?} / {rs_:?}"); }
            let rm = a.remove_members(&gid, &[uk.public_key()]).unwrap().evolution_event;
            a.merge_pending_commit(&gid).unwrap();
            log.push("alice removes the user".into());
            let _ = mem.process_message(&rm); let _ = sql.process_message(&rm);
            let secret = "sent after the user was removed";
            let after = a.create_message(&gid, create_test_rumor(&ak, secret)).unwrap();
            log.push("alice sends a message in the next epoch ; the removal commit is delivered again".into());
            let (r1, r2) = (mem.process_message(&after), sql.process_message(&after));
            let _ = mem.process_message(&rm); let _ = sql.process_message(&rm);
            let scen = log.join(" ; ");
            if let Ok(MessageProcessingResult::ApplicationMessage(m)) = &r1 { panic!("BOUNDED-COUNTEREXAMPLE {label}: scenario [history: {scen}] the removed user's memory-backed client was handed the plaintext {:?}", m.content); }
            if let Ok(MessageProcessingResult::ApplicationMessage(m)) = &r2 { panic!("BOUNDED-COUNTEREXAMPLE {label}: scenario [history: {scen}] the removed user's SQLite-backed client was handed the plaintext {:?}", m.content); }
            let (fm, fs) = (fp(&mem, &gid), fp(&sql, &gid));
            for (who, f, stored, can_send) in [("memory-backed", &fm, mem.get_messages(&gid, None).unwrap_or_default(), mem.create_message(&gid, create_test_rumor(&uk, "x")).is_ok()),
                                               ("SQLite-backed", &fs, sql.get_messages(&gid, None).unwrap_or_default(), sql.create_message(&gid, create_test_rumor(&uk, "x")).is_ok())] {
                if stored.iter().any(|m| m.content == secret) { panic!("BOUNDED-COUNTEREXAMPLE {label}: scenario [history: {scen}] the removed user's {who} client stored the message sent after the removal"); }
                if f.state.as_deref() != Some("Inactive") { panic!("BOUNDED-COUNTEREXAMPLE {label}: scenario [history: {scen}] the group is {:?} (not Inactive) on the removed user's {who} client", f.state); }
                if can_send { panic!("BOUNDED-COUNTEREXAMPLE {label}: scenario [history: {scen}] the removed user's {who} client can still create a message for the group"); }
            }
        }
    }
    // C03 "removed before that epoch ... learn nothing": several users removed in ONE remove_members call, named in every order of their
    // public keys (ascending, descending, and with the kept member's key in between): every named user is evicted -- none of them is
    // handed or stores a later message, the group is Inactive for each -- and the member that was not named still reads it.
    // Scope: one admin, three other members (two memory-backed, one SQLite-backed), every 2-subset of them removed in both orders.
    #[test]
    fn several_users_removed_in_one_call_history() {
        use crate::messages::MessageProcessingResult;
        let label = "mdk_backends_bounded.several_users_removed_in_one_call_history";
        for (x, y) in [(0usize, 1usize), (1, 0), (0, 2), (2, 0), (1, 2), (2, 1)] {
            let ak = Keys::generate();
            let mut uks = vec![Keys::generate(), Keys::generate(), Keys::generate()];
            uks.sort_by_key(|k| k.public_key());     // uks[0] < uks[1] < uks[2] by public key
            let a = create_test_mdk();
            let (m0, m1) = (create_test_mdk(), create_test_mdk());
            let s2 = MDK::new(MdkSqliteStorage::new_unencrypted(":memory:").unwrap());
            let kps = vec![create_key_package_event(&m0, &uks[0]), create_key_package_event(&m1, &uks[1]), create_key_package_event(&s2, &uks[2])];
            let res = a.create_group(&ak.public_key(), kps, create_nostr_group_config_data(vec![ak.public_key()])).unwrap();
            let gid = res.group.mls_group_id.clone();
            a.merge_pending_commit(&gid).unwrap();
            let z = nostr::EventId::all_zeros();
            let w = m0.process_welcome(&z, &res.welcome_rumors[0]).unwrap(); m0.accept_welcome(&w).unwrap();
            let w = m1.process_welcome(&z, &res.welcome_rumors[1]).unwrap(); m1.accept_welcome(&w).unwrap();
            let w = s2.process_welcome(&z, &res.welcome_rumors[2]).unwrap(); s2.accept_welcome(&w).unwrap();
            let scen = format!("alice creates a group with users u0 < u1 < u2 (by public key; u2 on SQLite) ; alice removes [u{x}, u{y}] in one call ; alice sends a message");
            let rm = a.remove_members(&gid, &[uks[x].public_key(), uks[y].public_key()]).unwrap().evolution_event;
            a.merge_pending_commit(&gid).unwrap();
            let secret = "sent after the removal";
            let after = a.create_message(&gid, create_test_rumor(&ak, secret)).unwrap();
            let kept = 3 - x - y;
            // every client gets the commit, then the message
            let feed = |i: usize| -> (bool, bool, Option<String>) {
                macro_rules! run { ($c:expr) => {{
                    let _ = $c.process_message(&rm);
                    let got = matches!($c.process_message(&after), Ok(MessageProcessingResult::ApplicationMessage(_)));
                    let stored = $c.get_messages(&gid, None).unwrap_or_default().iter().any(|m| m.content == secret);
                    (got, stored, fp(&$c, &gid).state)
                }}}
                match i { 0 => run!(m0), 1 => run!(m1), _ => run!(s2) }
            };
            for i in 0..3 {
                let (got, stored, state) = feed(i);
                if i == kept {
                    if !got || !stored { panic!("BOUNDED-COUNTEREXAMPLE {label}: scenario [history: {scen}] the member that was NOT named (u{i}) does not read the message (handed: {got}, stored: {stored})"); }
                } else {
                    if got || stored { panic!("BOUNDED-COUNTEREXAMPLE {label}: scenario [history: {scen}] the removed user u{i} reads the message sent after the removal (handed: {got}, stored: {stored})"); }
                    if state.as_deref() != Some("Inactive") { panic!("BOUNDED-COUNTEREXAMPLE {label}: scenario [history: {scen}] the group is {state:?} (not Inactive) for the removed user u{i}"); }
                }
            }
            let members = a.get_members(&gid).unwrap();
            for i in [x, y] { if members.contains(&uks[i].public_key()) { panic!("BOUNDED-COUNTEREXAMPLE {label}: scenario [history: {scen}] the removed user u{i} is still a member on alice's side"); } }
        }
    }
    // C04: rumors a (malicious) member can encrypt -- another member's pubkey in the rumor, the pre-set id of an existing message of
    // another member over different content -- and a captured ciphertext replayed in a fresh wrapper: none of them creates, replaces,
    // re-attributes or alters a stored message, and the replay produces no second copy. Both bystanders answer alike (checked by deliver).
    // Scope: one honest message, three hostile events by member bob, one re-wrapped replay; each delivered twice.
    #[test]
    fn hostile_rumors_history() {
        use nostr::{EventBuilder, Kind};
        let label = "mdk_backends_bounded.hostile_rumors_history";
        let mut w = setup();
        let honest = w.alice_msg(label, "alice's message");
        let stored = |m: &Vec<mdk_storage_traits::messages::types::Message>| -> Vec<(String, String, String, u64)> {
            let mut v: Vec<_> = m.iter().map(|x| (x.id.to_hex(), x.pubkey.to_hex(), x.content.clone(), x.created_at.as_secs())).collect(); v.sort(); v
        };
        let before_m = stored(&w.mem.get_messages(&w.gid, None).unwrap());
        let before_s = stored(&w.sql.get_messages(&w.gid, None).unwrap());
        let alice_id = w.mem.get_messages(&w.gid, None).unwrap()[0].id;
        let mut hostile: Vec<(String, Event)> = vec![];
        // (1) bob encrypts a rumor that names ALICE as its author
        // (the sending client's own checks are bypassed: the hostile member encrypts and wraps the rumor with the library's internal steps)
        let forge = |w: &World, mut rumor: nostr::UnsignedEvent| -> Event {
            let mut g = w.b.load_mls_group(&w.gid).unwrap().unwrap();
            let payload = w.b.create_mls_message_payload(&mut g, &mut rumor).unwrap();
            w.b.build_message_event(&w.gid, payload).unwrap()
        };
        hostile.push(("bob sends a rumor whose pubkey field is alice's".into(), forge(&w, create_test_rumor(&w.ak, "forged as alice"))));
        // (2) bob encrypts his own rumor with the pre-set id of alice's stored message (different content)
        let mut r = create_test_rumor(&w.bk, "overwrite attempt"); r.id = Some(alice_id);
        hostile.push(("bob sends his own rumor with the pre-set id of alice's stored message".into(), forge(&w, r)));
        // (3) bob encrypts a rumor naming alice AND carrying the id of her stored message
        let mut r = create_test_rumor(&w.ak, "overwrite attempt as alice"); r.id = Some(alice_id);
        hostile.push(("bob sends a rumor with alice's pubkey and the id of her stored message".into(), forge(&w, r)));
        // (4) alice's captured ciphertext in a fresh wrapper (new ephemeral key, new event id, same content and tags)
        let rewrapped = EventBuilder::new(Kind::MlsGroupMessage, honest.content.clone()).tags(honest.tags.iter().cloned()).sign_with_keys(&Keys::generate()).unwrap();
        hostile.push(("alice's ciphertext is replayed in a fresh wrapper".into(), rewrapped));
        for round in 0..2 { for (what, e) in &hostile {
            w.deliver(label, &format!("{what}{}", if round == 1 { " (again)" } else { "" }), e);
            let (now_m, now_s) = (stored(&w.mem.get_messages(&w.gid, None).unwrap()), stored(&w.sql.get_messages(&w.gid, None).unwrap()));
            for (who, before, now) in [("memory-backed", &before_m, &now_m), ("SQLite-backed", &before_s, &now_s)] {
                if before != now { panic!("BOUNDED-COUNTEREXAMPLE {label}: scenario [history: {}] the stored messages (id, author, content, created_at) of the {who} client changed: before {before:?} / now {now:?}", w.log.join(" ; ")); }
            }
        }}
    }
    // C16: an invitation processed again (same wrapper id) returns the same stored welcome and creates nothing; a merely received, a
    // declined and a malformed invitation never yield an active group; accepting puts the joiner in the inviter's post-commit state with
    // the self-update obligation pending; an invitation to ANOTHER group leaves a group in which the user is active exactly as it was.
    // (Invitations for an MLS group id the recipient already holds are the recorded finding F3 and are not part of this history.)
    // Scope: one inviter, a memory-backed and a SQLite-backed joiner, 2 groups, 1 malformed invitation; every step on both joiners.
    #[test]
    fn invitation_history() {
        let label = "mdk_backends_bounded.invitation_history";
        fn run<S: MdkStorageProvider>(label: &str, back: &str, j: &MDK<S>) {
            let bad = |scen: &str, what: String| -> ! { panic!("BOUNDED-COUNTEREXAMPLE {label}: scenario [history ({back} joiner): {scen}] {what}") };
            let (ak, jk) = (Keys::generate(), Keys::generate());
            let a = create_test_mdk();
            let wid = |n: u8| nostr::EventId::from_slice(&[n; 32]).unwrap();
            // group 1: received, received again, accepted
            let res = a.create_group(&ak.public_key(), vec![create_key_package_event(j, &jk)], create_nostr_group_config_data(vec![ak.public_key()])).unwrap();
            let g1 = res.group.mls_group_id.clone();
            a.merge_pending_commit(&g1).unwrap();
            let mut scen = String::from("alice invites the user to g1 ; process_welcome");
            let w1 = j.process_welcome(&wid(1), &res.welcome_rumors[0]).unwrap_or_else(|e| bad(&scen, format!("a valid invitation is refused: {e:?}")));
            let st = j.get_group(&g1).unwrap().map(|g| format!("{:?}", g.state));
            if st.as_deref() == Some("Active") { bad(&scen, "a merely received invitation yields an ACTIVE group".into()); }
            if j.create_message(&g1, create_test_rumor(&jk, "x")).is_ok() { bad(&scen, "the user can send to a group whose invitation was only received".into()); }
            scen.push_str(" ; process_welcome again (same wrapper id)");
            let w1b = j.process_welcome(&wid(1), &res.welcome_rumors[0]).unwrap_or_else(|e| bad(&scen, format!("the second processing fails: {e:?}")));
            if w1b != w1 { bad(&scen, format!("the second processing returns a different welcome: {:?} vs {:?}", w1b.id, w1.id)); }
            let n = j.get_pending_welcomes(None).unwrap().len();
            if n != 1 { bad(&scen, format!("{n} pending welcomes are stored, not 1")); }
            if j.get_groups().unwrap().len() != 1 { bad(&scen, format!("{} groups are stored, not 1", j.get_groups().unwrap().len())); }
            // the same invitation also arrives under a second gift-wrap id (a retry of the inviter's client) before the user answers
            scen.push_str(" ; the same invitation arrives under a second wrapper id");
            let w1dup = j.process_welcome(&wid(9), &res.welcome_rumors[0]).unwrap_or_else(|e| bad(&scen, format!("the duplicate is refused: {e:?}")));
            scen.push_str(" ; accept_welcome");
            j.accept_welcome(&w1).unwrap_or_else(|e| bad(&scen, format!("accepting a valid invitation fails: {e:?}")));
            let (gj, ga) = (j.get_group(&g1).unwrap().expect("joined group"), a.get_group(&g1).unwrap().unwrap());
            if format!("{:?}", gj.state) != "Active" { bad(&scen, format!("the joined group is {:?}", gj.state)); }
            if (gj.epoch, &gj.name, &gj.description, &gj.admin_pubkeys, gj.nostr_group_id, gj.image_hash) != (ga.epoch, &ga.name, &ga.description, &ga.admin_pubkeys, ga.nostr_group_id, ga.image_hash) {
                bad(&scen, format!("the joiner's record differs from the inviter's: epoch {} / {}, name {:?} / {:?}, nostr id equal {}", gj.epoch, ga.epoch, gj.name, ga.name, gj.nostr_group_id == ga.nostr_group_id)); }
            if j.get_members(&g1).unwrap() != a.get_members(&g1).unwrap() { bad(&scen, "the joiner's member set differs from the inviter's".into()); }
            if j.get_relays(&g1).unwrap() != a.get_relays(&g1).unwrap() { bad(&scen, "the joiner's relay set differs from the inviter's".into()); }
            if gj.self_update_state != mdk_storage_traits::groups::types::SelfUpdateState::Required { bad(&scen, format!("the self-update obligation is {:?}, not Required", gj.self_update_state)); }
            let m = a.create_message(&g1, create_test_rumor(&ak, "hello")).unwrap();
            if !matches!(j.process_message(&m), Ok(crate::messages::MessageProcessingResult::ApplicationMessage(_))) { bad(&scen, "the joiner cannot read the inviter's next message".into()); }
            // F26 / F28: the duplicate is declined, then the invitation is accepted a second time after the group moved on: g1 stays as it is
            scen.push_str(" ; alice renames g1 ; the user declines the duplicate copy ; the user accepts the first copy again");
            let rename = a.update_group_data(&g1, NostrGroupDataUpdate::new().name("g1 renamed".to_string())).unwrap().evolution_event;
            a.merge_pending_commit(&g1).unwrap();
            if !matches!(j.process_message(&rename), Ok(crate::messages::MessageProcessingResult::Commit { .. })) { bad(&scen, "the joiner cannot apply the inviter's next commit".into()); }
            let _ = j.decline_welcome(&w1dup);
            let _ = j.accept_welcome(&w1);
            let g = j.get_group(&g1).unwrap().expect("g1");
            if format!("{:?}", g.state) != "Active" { bad(&scen, format!("g1 is {:?} on the joiner", g.state)); }
            let mls_epoch = j.load_mls_group(&g1).unwrap().map(|m| m.epoch().as_u64());
            if mls_epoch != Some(g.epoch) || g.epoch != a.get_group(&g1).unwrap().unwrap().epoch { bad(&scen, format!("the joiner's MLS state is at epoch {mls_epoch:?}, its record at {}, the inviter at {}", g.epoch, a.get_group(&g1).unwrap().unwrap().epoch)); }
            let m2 = a.create_message(&g1, create_test_rumor(&ak, "after the second accept")).unwrap();
            if !matches!(j.process_message(&m2), Ok(crate::messages::MessageProcessingResult::ApplicationMessage(_))) { bad(&scen, "the joiner cannot read the inviter's next message any more".into()); }
            let snapshot_g1 = |j: &MDK<S>| { let g = j.get_group(&g1).unwrap().unwrap(); (g.epoch, g.name.clone(), format!("{:?}", g.state), g.nostr_group_id, g.admin_pubkeys.clone(), j.get_members(&g1).unwrap(), j.get_messages(&g1, None).unwrap().len()) };
            let before = snapshot_g1(j);
            // group 2: received and declined
            let res2 = a.create_group(&ak.public_key(), vec![create_key_package_event(j, &jk)], create_nostr_group_config_data(vec![ak.public_key()])).unwrap();
            let g2 = res2.group.mls_group_id.clone();
            a.merge_pending_commit(&g2).unwrap();
            scen.push_str(" ; alice invites the user to g2 ; process_welcome ; decline_welcome");
            let w2 = j.process_welcome(&wid(2), &res2.welcome_rumors[0]).unwrap_or_else(|e| bad(&scen, format!("a valid invitation is refused: {e:?}")));
            j.decline_welcome(&w2).unwrap_or_else(|e| bad(&scen, format!("declining fails: {e:?}")));
            if j.get_group(&g2).unwrap().map(|g| format!("{:?}", g.state)).as_deref() == Some("Active") { bad(&scen, "a declined invitation yields an ACTIVE group".into()); }
            if j.create_message(&g2, create_test_rumor(&jk, "x")).is_ok() { bad(&scen, "the user can send to a group whose invitation was declined".into()); }
            if j.get_pending_welcomes(None).unwrap().len() != 0 { bad(&scen, format!("{} welcomes are still pending", j.get_pending_welcomes(None).unwrap().len())); }
            if snapshot_g1(j) != before { bad(&scen, "the group the user is active in (g1) changed".into()); }
            // a malformed invitation (content is not a welcome), delivered twice
            scen.push_str(" ; a malformed invitation (content replaced) is delivered twice");
            let mut junk = res2.welcome_rumors[0].clone(); junk.content = "AAAA".into(); junk.id = None; junk.ensure_id();
            let groups_before = j.get_groups().unwrap().len();
            let r1 = j.process_welcome(&wid(3), &junk); let r2 = j.process_welcome(&wid(3), &junk);
            if r1.is_ok() || r2.is_ok() { bad(&scen, format!("the malformed invitation is accepted ({} / {})", r1.is_ok(), r2.is_ok())); }
            if j.get_groups().unwrap().len() != groups_before { bad(&scen, "the malformed invitation created a group".into()); }
            if j.get_pending_welcomes(None).unwrap().len() != 0 { bad(&scen, "the malformed invitation left a pending welcome".into()); }
            if snapshot_g1(j) != before { bad(&scen, "the group the user is active in (g1) changed".into()); }
            // F33: the user is removed from g1; the invitation used long ago is offered and accepted again: g1 stays Inactive
            scen.push_str(" ; alice removes the user from g1 ; the used invitation to g1 is processed (same wrapper id) and accepted again");
            let rm = a.remove_members(&g1, &[jk.public_key()]).unwrap().evolution_event;
            a.merge_pending_commit(&g1).unwrap();
            let _ = j.process_message(&rm);
            if j.get_group(&g1).unwrap().map(|g| format!("{:?}", g.state)).as_deref() != Some("Inactive") { bad(&scen, "g1 is not Inactive after the user's removal".into()); }
            if let Ok(again) = j.process_welcome(&wid(1), &res.welcome_rumors[0]) { let _ = j.accept_welcome(&again); }
            let st = j.get_group(&g1).unwrap().map(|g| format!("{:?}", g.state));
            if st.as_deref() != Some("Inactive") { bad(&scen, format!("g1 is {st:?} for the removed user after the used invitation was accepted again")); }
            if j.create_message(&g1, create_test_rumor(&jk, "x")).is_ok() { bad(&scen, "the removed user can send to g1 again".into()); }
        }
        run(label, "memory-backed", &create_test_mdk());
        run(label, "SQLite-backed", &MDK::new(MdkSqliteStorage::new_unencrypted(":memory:").unwrap()));
    }
    // C03 "once a client has processed its own removal the group is inactive for it", when the removed member's LEAF is taken over by a
    // member the same commit adds (F32): a Remove(bob) proposal is pending at the admin, the admin adds eve; bob's client applies the
    // commit and must end Inactive, unable to send, and is handed nothing sent afterwards. Scope: bob memory-backed / SQLite-backed.
    #[test]
    fn removed_member_whose_leaf_is_reused_history() {
        use tls_codec::Serialize as _;
        let label = "mdk_backends_bounded.removed_member_whose_leaf_is_reused_history";
        fn run<S: MdkStorageProvider>(label: &str, back: &str, b: &MDK<S>) {
            let (ak, bk, ck, ek) = (Keys::generate(), Keys::generate(), Keys::generate(), Keys::generate());
            let (a, c, e) = (create_test_mdk(), create_test_mdk(), create_test_mdk());
            let res = a.create_group(&ak.public_key(), vec![create_key_package_event(b, &bk), create_key_package_event(&c, &ck)], create_nostr_group_config_data(vec![ak.public_key()])).unwrap();
            let gid = res.group.mls_group_id.clone();
            a.merge_pending_commit(&gid).unwrap();
            let z = nostr::EventId::all_zeros();
            let w = b.process_welcome(&z, &res.welcome_rumors[0]).unwrap(); b.accept_welcome(&w).unwrap();
            let w = c.process_welcome(&z, &res.welcome_rumors[1]).unwrap(); c.accept_welcome(&w).unwrap();
            let mut gc = c.load_mls_group(&gid).unwrap().unwrap();
            let signer = c.load_mls_signer(&gc).unwrap();
            let bob_idx = gc.members().find(|m| c.pubkey_for_member(m).unwrap() == bk.public_key()).unwrap().index;
            let (msg, _) = gc.propose_remove_member(&c.provider, &signer, bob_idx).unwrap();
            let prop = c.build_message_event(&gid, msg.tls_serialize_detached().unwrap()).unwrap();
            let _ = a.process_message(&prop); let _ = b.process_message(&prop);
            let add = a.add_members(&gid, &[create_key_package_event(&e, &ek)]).unwrap();
            a.merge_pending_commit(&gid).unwrap();
            let scen = format!("history ({back} bob): a Remove(bob) proposal is pending at admin alice ; alice adds eve (the commit removes bob and gives eve his leaf) ; bob is fed the commit ; alice sends a message");
            if a.get_members(&gid).unwrap().contains(&bk.public_key()) { return; }   // the proposal was not swept into the commit: nothing to check
            let _ = b.process_message(&add.evolution_event);
            let after = a.create_message(&gid, create_test_rumor(&ak, "after bob's removal")).unwrap();
            let got = matches!(b.process_message(&after), Ok(crate::messages::MessageProcessingResult::ApplicationMessage(_)));
            let st = b.get_group(&gid).unwrap().map(|g| format!("{:?}", g.state));
            if got { panic!("BOUNDED-COUNTEREXAMPLE {label}: scenario [{scen}] the removed member is handed the message"); }
            if st.as_deref() != Some("Inactive") { panic!("BOUNDED-COUNTEREXAMPLE {label}: scenario [{scen}] the group is {st:?} (not Inactive) for the removed member"); }
            if b.create_message(&gid, create_test_rumor(&bk, "x")).is_ok() { panic!("BOUNDED-COUNTEREXAMPLE {label}: scenario [{scen}] the removed member can still create a message for the group"); }
        }
        run(label, "memory-backed", &create_test_mdk());
        run(label, "SQLite-backed", &MDK::new(MdkSqliteStorage::new_unencrypted(":memory:").unwrap()));
    }
    // C01 / C09 / C10: a commit race resolved by rollback WHILE A PROPOSAL IS PENDING at the bystanders (the pre-commit snapshot holds a
    // non-empty MLS proposal queue, which the rollback must bring back usable): a member's leave proposal is stored pending at both
    // bystanders, both admins auto-commit it concurrently, the bystanders get the loser first, then the winner; afterwards both follow
    // the winner and read its next message. Scope: one history, memory-backed and SQLite-backed bystander compared after every event.
    #[test]
    fn race_with_a_pending_proposal_history() {
        use crate::messages::MessageProcessingResult;
        let label = "mdk_backends_bounded.race_with_a_pending_proposal_history";
        let mut w = setup();
        let dk = Keys::generate(); let d = create_test_mdk();
        let add = w.a.add_members(&w.gid, &[create_key_package_event(&d, &dk)]).unwrap();
        w.a.merge_pending_commit(&w.gid).unwrap(); w.b.process_message(&add.evolution_event).unwrap();
        w.deliver(label, "alice adds dave", &add.evolution_event);
        let wl = d.process_welcome(&nostr::EventId::all_zeros(), &add.welcome_rumors.as_ref().unwrap()[0]).unwrap(); d.accept_welcome(&wl).unwrap();
        let leave = d.leave_group(&w.gid).unwrap().evolution_event;
        w.deliver(label, "dave's leave proposal (stored pending at the bystanders)", &leave);
        let commit_of = |r: crate::messages::Result<MessageProcessingResult>| -> Event { match r { Ok(MessageProcessingResult::Proposal(u)) => u.evolution_event, other => panic!("harness: an admin did not auto-commit the leave (not a counterexample): {other:?}") } };
        let ca = commit_of(w.a.process_message(&leave));
        std::thread::sleep(std::time::Duration::from_millis(1100));
        let cb = commit_of(w.b.process_message(&leave));
        w.deliver(label, "bob's auto-commit of the leave (the LOSER: one second younger)", &cb);
        w.deliver(label, "alice's auto-commit of the leave (the winner) -> rollback with a pending proposal in the snapshot", &ca);
        w.a.merge_pending_commit(&w.gid).unwrap();
        let want = w.a.get_group(&w.gid).unwrap().unwrap().epoch;
        for (who, f) in [("memory-backed", fp(&w.mem, &w.gid)), ("SQLite-backed", fp(&w.sql, &w.gid))] {
            if f.epoch != Some(want) { panic!("BOUNDED-COUNTEREXAMPLE {label}: scenario [history: {}] the {who} bystander is at epoch {:?}, the winner at {want}", w.log.join(" ; "), f.epoch); }
        }
        let m = w.a.create_message(&w.gid, create_test_rumor(&w.ak, "on the winning branch")).unwrap();
        let (rm, rs) = (w.mem.process_message(&m), w.sql.process_message(&m));
        for (who, r) in [("memory-backed", &rm), ("SQLite-backed", &rs)] {
            if !matches!(r, Ok(MessageProcessingResult::ApplicationMessage(_))) { panic!("BOUNDED-COUNTEREXAMPLE {label}: scenario [history: {} ; alice sends a message] the {who} bystander cannot read the winner's next message: {:?}", w.log.join(" ; "), r.as_ref().map(|x| format!("{:?}", std::mem::discriminant(x))).map_err(|e| format!("{e:?}").chars().take(80).collect::<String>())); }
        }
    }
    // C01 "commits ahead of their predecessors ... once every member has been offered the events again until nothing changes any more":
    // an admin's auto-commit of a member's leave reaches the bystanders BEFORE the leave proposal it commits by reference (both were
    // created in the same epoch: the order is epoch-causal). Once the proposal and then the commit were offered again, the bystanders
    // are where the committer is. Scope: one group of 5, one leave, the orders (commit, proposal, commit) and (commit, proposal,
    // commit, commit), both back ends. Its own test and label: see known_findings.txt if the unchanged tree fails it.
    #[test]
    fn commit_delivered_before_the_proposal_it_commits_history() {
        use crate::messages::MessageProcessingResult;
        let label = "mdk_backends_bounded.commit_delivered_before_the_proposal_it_commits_history";
        let mut w = setup();
        let dk = Keys::generate(); let d = create_test_mdk();
        let add = w.a.add_members(&w.gid, &[create_key_package_event(&d, &dk)]).unwrap();
        w.a.merge_pending_commit(&w.gid).unwrap(); w.b.process_message(&add.evolution_event).unwrap();
        w.deliver(label, "alice adds dave", &add.evolution_event);
        let wl = d.process_welcome(&nostr::EventId::all_zeros(), &add.welcome_rumors.as_ref().unwrap()[0]).unwrap(); d.accept_welcome(&wl).unwrap();
        let leave = d.leave_group(&w.gid).unwrap().evolution_event;
        let ca = match w.a.process_message(&leave) { Ok(MessageProcessingResult::Proposal(u)) => u.evolution_event, other => panic!("harness: the admin did not auto-commit the leave (not a counterexample): {other:?}") };
        w.a.merge_pending_commit(&w.gid).unwrap();
        let want = w.a.get_group(&w.gid).unwrap().unwrap().epoch;
        w.deliver(label, "alice's auto-commit of dave's leave, AHEAD of the leave proposal it commits by reference", &ca);
        w.deliver(label, "dave's leave proposal", &leave);
        w.deliver(label, "alice's commit offered again", &ca);
        w.deliver(label, "alice's commit offered once more", &ca);
        for (who, f) in [("memory-backed", fp(&w.mem, &w.gid)), ("SQLite-backed", fp(&w.sql, &w.gid))] {
            if f.epoch != Some(want) || f.members.as_ref().map(|m| m.len()) != Some(4) {
                panic!("BOUNDED-COUNTEREXAMPLE {label}: scenario [history: {}] the {who} bystander does not follow the committer: expected epoch {want} with 4 members (dave gone) ; got epoch {:?} with {:?} members", w.log.join(" ; "), f.epoch, f.members.as_ref().map(|m| m.len()));
            }
        }
    }
    // C02 "any order relative to ... commits ... inside the past-epoch window": a message of epoch n that reaches a member AFTER the commit
    // n -> n+1 is stored -- also when that commit rotated the group's Nostr group id (the late wrapper carries the old id), and also the
    // sender's own copy (its echo confirms it). Scope: one message, one rotating commit, message delivered after the commit, twice; both back ends.
    // Its own test and label: see known_findings.txt if the unchanged tree fails it.
    #[test]
    fn message_delivered_after_a_commit_that_rotates_the_nostr_group_id_history() {
        let label = "mdk_backends_bounded.message_delivered_after_a_commit_that_rotates_the_nostr_group_id_history";
        let mut w = setup();
        w.alice_msg(label, "m1");
        let late = w.b.create_message(&w.gid, create_test_rumor(&w.bk, "bob's message of epoch 1, delivered late")).unwrap();
        let rot = w.a.update_group_data(&w.gid, NostrGroupDataUpdate::new().nostr_group_id([0x55; 32])).unwrap().evolution_event;
        w.a.merge_pending_commit(&w.gid).unwrap(); w.b.process_message(&rot).unwrap();
        w.deliver(label, "alice's commit 1 -> 2, which rotates the Nostr group id", &rot);
        w.deliver(label, "bob's message of epoch 1 (wrapper tagged with the old Nostr group id), one epoch late", &late);
        w.deliver(label, "the same message offered again", &late);
        for (who, f) in [("memory-backed", fp(&w.mem, &w.gid)), ("SQLite-backed", fp(&w.sql, &w.gid))] {
            if f.messages.iter().filter(|m| m.1 == "Processed").count() != 2 {
                panic!("BOUNDED-COUNTEREXAMPLE {label}: scenario [history: {}] the {who} bystander does not hold bob's late message: expected 2 valid messages (m1 and bob's) ; got {:?}", w.log.join(" ; "), f.messages);
            }
        }
        // the sender's own copy is confirmed by its echo
        let _ = w.b.process_message(&late);
        let fb = fp(&w.b, &w.gid);
        if fb.messages.iter().any(|m| m.1 == "Created") {
            panic!("BOUNDED-COUNTEREXAMPLE {label}: scenario [history: {} ; bob receives the echo of his own message] bob's own copy is not confirmed: {:?}", w.log.join(" ; "), fb.messages);
        }
    }
    // C02 "as long as reordering stays inside the CONFIGURED ... past-epoch window ... non-default MdkConfig values": with
    // max_past_epochs = 8 on every client a message that is k epochs late is stored for every k <= 8. Scope: one group of 2, memory back
    // end, k in {8, 6, 5} (one message per k, delivered after k further commits). Its own test and label: see known_findings.txt.
    #[test]
    fn late_messages_inside_a_configured_window_of_eight_epochs_history() {
        use crate::messages::MessageProcessingResult;
        let label = "mdk_backends_bounded.late_messages_inside_a_configured_window_of_eight_epochs_history";
        let cfg = || crate::MdkConfig { max_past_epochs: 8, ..crate::MdkConfig::default() };
        let (a, b) = (crate::tests::create_test_mdk_with_config(cfg()), crate::tests::create_test_mdk_with_config(cfg()));
        let (ak, bk) = (Keys::generate(), Keys::generate());
        let res = a.create_group(&ak.public_key(), vec![create_key_package_event(&b, &bk)], create_nostr_group_config_data(vec![ak.public_key()])).unwrap();
        let gid = res.group.mls_group_id.clone();
        a.merge_pending_commit(&gid).unwrap();
        let wl = b.process_welcome(&nostr::EventId::all_zeros(), &res.welcome_rumors[0]).unwrap(); b.accept_welcome(&wl).unwrap();
        let early = a.create_message(&gid, create_test_rumor(&ak, "sent in epoch 1")).unwrap();
        let mut missed = vec![];
        for _ in 0..8 { let c = a.self_update(&gid).unwrap().evolution_event; a.merge_pending_commit(&gid).unwrap(); b.process_message(&c).unwrap(); }
        // bob is now 8 epochs ahead of `early`: inside the configured window of 8
        let r = b.process_message(&early);
        if !matches!(r, Ok(MessageProcessingResult::ApplicationMessage(_))) { missed.push(format!("8 epochs late: {:?}", r.as_ref().map(|x| std::mem::discriminant(x)).map_err(|e| format!("{e:?}").chars().take(60).collect::<String>()))); }
        // and one that is 6 epochs late (beyond the fixed look-back of 5, inside the configured 8)
        let six = a.create_message(&gid, create_test_rumor(&ak, "sent in epoch 9")).unwrap();
        for _ in 0..6 { let c = a.self_update(&gid).unwrap().evolution_event; a.merge_pending_commit(&gid).unwrap(); b.process_message(&c).unwrap(); }
        let r = b.process_message(&six);
        if !matches!(r, Ok(MessageProcessingResult::ApplicationMessage(_))) { missed.push(format!("6 epochs late: {:?}", r.as_ref().map(|x| std::mem::discriminant(x)).map_err(|e| format!("{e:?}").chars().take(60).collect::<String>()))); }
        // control: 5 epochs late is read
        let five = a.create_message(&gid, create_test_rumor(&ak, "sent in epoch 15")).unwrap();
        for _ in 0..5 { let c = a.self_update(&gid).unwrap().evolution_event; a.merge_pending_commit(&gid).unwrap(); b.process_message(&c).unwrap(); }
        let r = b.process_message(&five);
        if !matches!(r, Ok(MessageProcessingResult::ApplicationMessage(_))) { panic!("harness: a message 5 epochs late is not read with max_past_epochs = 8 (not the counterexample this check looks for): {r:?}"); }
        if !missed.is_empty() {
            panic!("BOUNDED-COUNTEREXAMPLE {label}: scenario [alice and bob both configured with max_past_epochs = 8; alice sends a message, then commits k self-updates which bob applies, then the message reaches bob] expected: stored for every k <= 8 ; got: {missed:?} (5 epochs late is stored)");
        }
    }
    // C05: a commit that a NON-admin member builds directly with the MLS library (bypassing the client-side admin gate) and that does
    // more than refresh its author's own key -- a group-data rewrite making the author an admin, a removal, an add -- is refused by
    // both bystanders and leaves them exactly as they were. Scope: one hostile member, three crafted commits, each delivered twice.
    #[test]
    fn hostile_non_admin_commits_history() {
        use openmls::prelude::{Extension, UnknownExtension};
        use tls_codec::Serialize as TlsSerialize;
        use openmls_traits::OpenMlsProvider;
        use crate::extension::NostrGroupDataExtension;
        let label = "mdk_backends_bounded.hostile_non_admin_commits_history";
        let mut w = setup();
        w.alice_msg(label, "m1");
        // carol joins as a plain member
        let ck = Keys::generate(); let c = create_test_mdk();
        let add = w.a.add_members(&w.gid, &[create_key_package_event(&c, &ck)]).unwrap();
        w.a.merge_pending_commit(&w.gid).unwrap(); w.b.process_message(&add.evolution_event).unwrap();
        w.deliver(label, "alice adds carol (plain member)", &add.evolution_event);
        let wl = c.process_welcome(&nostr::EventId::all_zeros(), &add.welcome_rumors.as_ref().unwrap()[0]).unwrap(); c.accept_welcome(&wl).unwrap();
        let crafted: Vec<(&str, Event)> = {
            let mut v = vec![];
            // (1) group-data rewrite: new name, carol as admin
            { let mut g = c.load_mls_group(&w.gid).unwrap().unwrap();
              let mut gd = NostrGroupDataExtension::from_group(&g).unwrap(); gd.admins.insert(ck.public_key()); gd.name = "carol's group".to_string();
              let ext = Extension::Unknown(gd.extension_type(), UnknownExtension(gd.as_raw().tls_serialize_detached().unwrap()));
              let mut exts = g.extensions().clone(); exts.add_or_replace(ext).unwrap();
              let signer = c.load_mls_signer(&g).unwrap();
              let (commit, _, _) = g.update_group_context_extensions(&c.provider, exts, &signer).unwrap();
              v.push(("a group-data rewrite (new name, author made admin)", c.build_message_event(&w.gid, commit.tls_serialize_detached().unwrap()).unwrap()));
              g.clear_pending_commit(c.provider.storage()).unwrap(); }
            // (2) removal of another member
            { let mut g = c.load_mls_group(&w.gid).unwrap().unwrap();
              let own = g.own_leaf_index();
              let victim = g.members().find(|m| m.index != own).map(|m| m.index).unwrap();
              let signer = c.load_mls_signer(&g).unwrap();
              let (commit, _, _) = g.remove_members(&c.provider, &signer, &[victim]).unwrap();
              v.push(("a removal of another member", c.build_message_event(&w.gid, commit.tls_serialize_detached().unwrap()).unwrap()));
              g.clear_pending_commit(c.provider.storage()).unwrap(); }
            v
        };
        for (what, e) in &crafted {
            for round in 0..2 {
                let before = (fp(&w.mem, &w.gid), fp(&w.sql, &w.gid));
                let (rm, rs) = (w.mem.process_message(e), w.sql.process_message(e));
                w.log.push(format!("non-admin carol's crafted commit: {what} (delivery {})", round + 1));
                for (who, r) in [("memory-backed", &rm), ("SQLite-backed", &rs)] {
                    if matches!(r, Ok(crate::messages::MessageProcessingResult::Commit { .. })) { panic!("BOUNDED-COUNTEREXAMPLE {label}: scenario [history: {}] the {who} bystander APPLIED the non-admin's commit", w.log.join(" ; ")); }
                }
                let after = (fp(&w.mem, &w.gid), fp(&w.sql, &w.gid));
                if !diff(&before.0, &after.0).is_empty() || !diff(&before.1, &after.1).is_empty() { panic!("BOUNDED-COUNTEREXAMPLE {label}: scenario [history: {}] a refused non-admin commit changed a bystander: memory-backed [{}] SQLite-backed [{}]", w.log.join(" ; "), diff(&before.0, &after.0), diff(&before.1, &after.1)); }
            }
        }
        w.alice_msg(label, "after the hostile commits");
    }
}
