
// ---- appended by /verif (bounded stand-in; see /verif/DESIGN.md 8.4a) -------------------------------------------------------
// The foreign-language bindings' own argument handling, executed on the real code. BOUNDED: every scenario of the stated scope.
#[cfg(test)]
mod verif_bounded_uniffi {
    use super::*;
    use nostr::nips::nip19::ToBech32;
    use nostr::{EventBuilder, Keys, Kind, Tag};

    fn new_client() -> Mdk { new_mdk_unencrypted(":memory:".to_string(), None).unwrap() }
    fn key_package_event_json(mdk: &Mdk, keys: &Keys, relays: &[String]) -> String {
        let kp = mdk.create_key_package_for_event(keys.public_key().to_hex(), relays.to_vec()).unwrap();
        let event = EventBuilder::new(Kind::MlsKeyPackage, kp.key_package)
            .tags(kp.tags.iter().map(|t| Tag::parse(t.clone()).unwrap()).collect::<Vec<_>>())
            .sign_with_keys(keys).unwrap();
        serde_json::to_string(&event).unwrap()
    }
    fn join(mdk: &Mdk, wrapper_id_byte: u8, welcome_rumor_json: &str) {
        let wrapper_id = EventId::from_byte_array([wrapper_id_byte; 32]);
        let welcome = mdk.process_welcome(wrapper_id.to_hex(), welcome_rumor_json.to_string()).unwrap();
        mdk.accept_welcome(welcome).unwrap();
    }
    fn sorted(mut v: Vec<String>) -> Vec<String> { v.sort(); v }

    // C03 / C06: Mdk::remove_members either removes EVERY user the caller named or refuses the call as a whole, changing nothing: a
    // key that does not parse is never silently dropped (the caller would believe that member gone). After a refused call the group
    // is as before (same members, no pending commit in the way: a correct removal still goes through).
    // Scope: one group of 4 (admin Alice; Bob, Carol, Dave); key lists [bad], [valid, bad], [bad, valid], [valid, bad, valid] for each
    // of 6 unparsable spellings (empty, not hex, 63 and 65 hex digits, the bech32 form of a MEMBER's key, hex with a 0x prefix): 24 calls.
    #[test]
    fn removal_with_an_unparsable_key_is_refused_as_a_whole() {
        let label = "uniffi_bounded.removal_with_an_unparsable_key_is_refused_as_a_whole";
        let relays = vec!["wss://relay.example.com".to_string()];
        let alice = new_client(); let bob = new_client(); let carol = new_client(); let dave = new_client();
        let (ak, bk, ck, dk) = (Keys::generate(), Keys::generate(), Keys::generate(), Keys::generate());
        let create = alice.create_group(ak.public_key().to_hex(),
            vec![key_package_event_json(&bob, &bk, &relays), key_package_event_json(&carol, &ck, &relays), key_package_event_json(&dave, &dk, &relays)],
            "group".to_string(), "description".to_string(), relays.clone(), vec![ak.public_key().to_hex()]).unwrap();
        let gid = create.group.mls_group_id.clone();
        join(&bob, 1, &create.welcome_rumors_json[0]); join(&carol, 2, &create.welcome_rumors_json[1]); join(&dave, 3, &create.welcome_rumors_json[2]);
        let (bob_hex, carol_hex, dave_hex) = (bk.public_key().to_hex(), ck.public_key().to_hex(), dk.public_key().to_hex());
        let before = sorted(alice.get_members(gid.clone()).unwrap());
        let bad: Vec<(&str, String)> = vec![
            ("the empty string", String::new()), ("not hex", "zz".repeat(32)), ("63 hex digits", bob_hex[..63].to_string()),
            ("65 hex digits", format!("{bob_hex}0")), ("the bech32 (npub) form of member Bob's key", bk.public_key().to_bech32().unwrap()),
            ("member Bob's key with a 0x prefix", format!("0x{bob_hex}")),
        ];
        for (what, b) in &bad {
            for list in [vec![b.clone()], vec![carol_hex.clone(), b.clone()], vec![b.clone(), carol_hex.clone()], vec![carol_hex.clone(), b.clone(), dave_hex.clone()]] {
                let scen = format!("group {{Alice (admin), Bob, Carol, Dave}}; Alice calls remove_members({list:?}) where one entry is {what}");
                match alice.remove_members(gid.clone(), list.clone()) {
                    Err(_) => {}
                    Ok(_) => panic!("BOUNDED-COUNTEREXAMPLE {label}: scenario [{scen}] expected: the call is refused as a whole (an entry names nobody the library can identify) ; got: Ok(..) -- a removal that does not cover every named user is reported as successful"),
                }
                let after = sorted(alice.get_members(gid.clone()).unwrap());
                if after != before { panic!("BOUNDED-COUNTEREXAMPLE {label}: scenario [{scen}] members after the refused call: expected {before:?} ; got {after:?}"); }
            }
        }
        // nothing is left in the way: the correct call removes exactly Carol and Dave
        let scen = "after the 24 refused calls Alice calls remove_members([Carol, Dave]) and merges";
        if let Err(e) = alice.remove_members(gid.clone(), vec![carol_hex.clone(), dave_hex.clone()]) { panic!("BOUNDED-COUNTEREXAMPLE {label}: scenario [{scen}] expected Ok ; got Err({e:?})"); }
        alice.merge_pending_commit(gid.clone()).unwrap();
        let after = sorted(alice.get_members(gid.clone()).unwrap());
        let want = sorted(vec![ak.public_key().to_hex(), bob_hex.clone()]);
        if after != want { panic!("BOUNDED-COUNTEREXAMPLE {label}: scenario [{scen}] members: expected {want:?} ; got {after:?}"); }
    }
}
