// BOUNDED stand-in (NOT a proof) for the SQL text of the SQLite back end, which no contract can reach: the real
// MdkSqliteStorage (in-memory database) is run side by side with the real MdkMemoryStorage (whose per-entry decisions
// are proved in the Verus units) and with the storage contract written out below, on EVERY scenario of a small scope.
// Appended by /verif/driver (engine "bounded") to crates/mdk-core/src/lib.rs of a scratch copy of /repo and run with
//   cargo test --offline -p mdk-core --lib verif_bounded
// A failing scenario is printed as `BOUNDED-COUNTEREXAMPLE <label>: ...` and is a concrete input on the real code.
#[cfg(test)]
mod verif_bounded {
    use std::collections::BTreeSet;
    use std::fmt::Debug;

    use mdk_memory_storage::MdkMemoryStorage;
    use mdk_sqlite_storage::MdkSqliteStorage;
    use mdk_storage_traits::groups::types::{Group, GroupExporterSecret, GroupState, SelfUpdateState};
    use mdk_storage_traits::groups::{GroupStorage, MessageSortOrder, Pagination};
    use mdk_storage_traits::messages::MessageStorage;
    use mdk_storage_traits::messages::types::{Message, MessageState, ProcessedMessage, ProcessedMessageState};
    use mdk_storage_traits::welcomes::WelcomeStorage;
    use mdk_storage_traits::welcomes::types::{ProcessedWelcome, ProcessedWelcomeState, Welcome, WelcomeState};
    use mdk_storage_traits::{GroupId, MdkStorageProvider, Secret};
    use nostr::{EventId, Kind, PublicKey, RelayUrl, Tag, Tags, Timestamp, UnsignedEvent};

    fn stores() -> (MdkMemoryStorage, MdkSqliteStorage) {
        (MdkMemoryStorage::default(), MdkSqliteStorage::new_unencrypted(":memory:").expect("sqlite in memory"))
    }
    fn gid(n: u8) -> GroupId { GroupId::from_slice(&[n; 16]) }
    fn eid(n: u8) -> EventId { EventId::from_slice(&[n; 32]).unwrap() }
    fn pk() -> PublicKey { PublicKey::parse("npub1a6awmmklxfmspwdv52qq58sk5c07kghwc4v2eaudjx2ju079cdqs2452ys").unwrap() }
    fn group(n: u8, nostr: u8) -> Group {
        Group {
            mls_group_id: gid(n), nostr_group_id: [nostr; 32], name: format!("g{n}"), description: format!("d{n}"),
            admin_pubkeys: BTreeSet::from([pk()]), last_message_id: None, last_message_at: None, last_message_processed_at: None,
            epoch: 1, state: GroupState::Active, image_hash: None, image_key: None, image_nonce: None,
            self_update_state: SelfUpdateState::Required,
        }
    }
    fn msg(g: u8, id: u8, created: u64, processed: u64, epoch: Option<u64>, state: MessageState, content: &str, tags: Tags) -> Message {
        let event = UnsignedEvent { id: Some(eid(id)), pubkey: pk(), created_at: Timestamp::from(created), kind: Kind::Custom(9), tags: tags.clone(), content: content.to_string() };
        Message { id: eid(id), pubkey: pk(), kind: Kind::Custom(9), mls_group_id: gid(g), created_at: Timestamp::from(created), processed_at: Timestamp::from(processed),
                  content: content.to_string(), tags, event, wrapper_event_id: eid(id.wrapping_add(100)), epoch, state }
    }
    fn pm(id: u8, g: Option<u8>, epoch: Option<u64>, state: ProcessedMessageState) -> ProcessedMessage {
        ProcessedMessage { wrapper_event_id: eid(id), message_event_id: Some(eid(id.wrapping_add(50))), processed_at: Timestamp::from(7u64), epoch,
                           mls_group_id: g.map(gid), state, failure_reason: if state == ProcessedMessageState::Failed { Some("x".to_string()) } else { None } }
    }
    fn same<T: PartialEq + Debug>(label: &str, scenario: &str, what: &str, memory: T, sqlite: T) {
        if memory != sqlite {
            panic!("BOUNDED-COUNTEREXAMPLE {label}: scenario [{scenario}] {what}: memory back end = {memory:?} ; SQLite back end = {sqlite:?}");
        }
    }
    fn expect<T: PartialEq + Debug>(label: &str, scenario: &str, what: &str, backend: &str, got: T, want: T) {
        if got != want {
            panic!("BOUNDED-COUNTEREXAMPLE {label}: scenario [{scenario}] {what}: {backend} back end returned {got:?} ; the storage contract says {want:?}");
        }
    }
    fn ids(v: &[Message]) -> Vec<u8> { v.iter().map(|m| m.id.as_bytes()[0]).collect() }

    // C18: listing order, pages and last_message. Scope (quick): 3 messages, (created_at, processed_at) in {10,20}^2 each (64 combinations),
    // every insertion order for a quarter of them and two for the rest, both sort orders, limit 1..=4, offset 0..=4.
    // Scope (VERIF_TIER=thorough): 4 messages (256 combinations), 4 rotations of the insertion order, limit 1..=5, offset 0..=5.
    #[test]
    fn listing_pages_and_last_message_follow_the_documented_total_orders() {
        let label = "sqlite_bounded.listing_pages_and_last_message";
        let thorough = std::env::var("VERIF_TIER").as_deref() == Ok("thorough");
        let n: usize = if thorough { 4 } else { 3 };
        let ts = [10u64, 20u64];
        let mut orders: Vec<Vec<usize>> = vec![];
        if thorough { for r in 0..n { orders.push((0..n).map(|i| (i + r) % n).collect()); } }
        else { orders = vec![vec![0, 1, 2], vec![0, 2, 1], vec![1, 0, 2], vec![1, 2, 0], vec![2, 0, 1], vec![2, 1, 0]]; }
        let maxp = if thorough { 5 } else { 4 };
        for combo in 0..(1usize << (2 * n)) {
            let key = |i: usize| -> (u64, u64) { let c = (combo >> (2 * i)) & 3; (ts[c & 1], ts[(c >> 1) & 1]) };
            for (oi, order) in orders.iter().enumerate() {
                if !thorough && combo % 4 != 0 && oi > 1 { continue; }
                let (m, s) = stores();
                m.save_group(group(1, 1)).unwrap(); s.save_group(group(1, 1)).unwrap();
                for &i in order {
                    let (c, p) = key(i);
                    let x = msg(1, (i + 1) as u8, c, p, Some(1), MessageState::Processed, "c", Tags::new());
                    m.save_message(x.clone()).unwrap(); s.save_message(x).unwrap();
                }
                for so in [MessageSortOrder::CreatedAtFirst, MessageSortOrder::ProcessedAtFirst] {
                    // the documented order: (created, processed, id) resp. (processed, created, id), all descending
                    let mut spec: Vec<u8> = (1..=n as u8).collect();
                    spec.sort_by(|a, b| {
                        let (ca, pa) = key((*a - 1) as usize); let (cb, pb) = key((*b - 1) as usize);
                        let ka = if so == MessageSortOrder::CreatedAtFirst { (ca, pa, *a) } else { (pa, ca, *a) };
                        let kb = if so == MessageSortOrder::CreatedAtFirst { (cb, pb, *b) } else { (pb, cb, *b) };
                        kb.cmp(&ka)
                    });
                    let scen = format!("keys(created,processed) of m1..m{n} = {:?}, inserted in order {:?}, sort {:?}", (0..n).map(key).collect::<Vec<_>>(), order, so);
                    for limit in 1..=maxp { for offset in 0..=maxp {
                        let pg = Pagination::with_sort_order(Some(limit), Some(offset), so);
                        let want: Vec<u8> = spec.iter().skip(offset).take(limit).cloned().collect();
                        let a = ids(&m.messages(&gid(1), Some(pg)).unwrap()); let b = ids(&s.messages(&gid(1), Some(pg)).unwrap());
                        expect(label, &scen, &format!("messages(limit={limit}, offset={offset})"), "SQLite", b, want.clone());
                        expect(label, &scen, &format!("messages(limit={limit}, offset={offset})"), "memory", a, want);
                    } }
                    let la = m.last_message(&gid(1), so).unwrap().map(|x| x.id.as_bytes()[0]); let lb = s.last_message(&gid(1), so).unwrap().map(|x| x.id.as_bytes()[0]);
                    expect(label, &scen, "last_message", "SQLite", lb, Some(spec[0]));
                    expect(label, &scen, "last_message", "memory", la, Some(spec[0]));
                }
            }
        }
    }

    // C18 / C02 / C04: save_message is an upsert of EVERY field on (group, id). Scope: one message saved twice, each single field changed.
    #[test]
    fn save_message_replaces_every_field() {
        let label = "sqlite_bounded.save_message_replaces_every_field";
        let variants: Vec<(&str, Message)> = vec![
            ("processed_at 10 -> 30", msg(1, 1, 10, 30, Some(1), MessageState::Created, "c", Tags::new())),
            ("created_at 10 -> 30", msg(1, 1, 30, 10, Some(1), MessageState::Created, "c", Tags::new())),
            ("state Created -> Processed", msg(1, 1, 10, 10, Some(1), MessageState::Processed, "c", Tags::new())),
            ("state Created -> EpochInvalidated", msg(1, 1, 10, 10, Some(1), MessageState::EpochInvalidated, "c", Tags::new())),
            ("epoch 1 -> 2", msg(1, 1, 10, 10, Some(2), MessageState::Created, "c", Tags::new())),
            ("epoch 1 -> None", msg(1, 1, 10, 10, None, MessageState::Created, "c", Tags::new())),
            ("content", msg(1, 1, 10, 10, Some(1), MessageState::Created, "other", Tags::new())),
            ("tags", msg(1, 1, 10, 10, Some(1), MessageState::Created, "c", Tags::from_list(vec![Tag::custom(nostr::TagKind::Custom("t".into()), ["v"])]))),
        ];
        for (what, second) in variants {
            let (m, s) = stores();
            m.save_group(group(1, 1)).unwrap(); s.save_group(group(1, 1)).unwrap();
            let first = msg(1, 1, 10, 10, Some(1), MessageState::Created, "c", Tags::new());
            m.save_message(first.clone()).unwrap(); s.save_message(first).unwrap();
            m.save_message(second.clone()).unwrap(); s.save_message(second.clone()).unwrap();
            let scen = format!("save m1, then save m1 again with changed {what}");
            expect(label, &scen, "find_message_by_event_id", "SQLite", s.find_message_by_event_id(&gid(1), &eid(1)).unwrap(), Some(second.clone()));
            expect(label, &scen, "find_message_by_event_id", "memory", m.find_message_by_event_id(&gid(1), &eid(1)).unwrap(), Some(second.clone()));
            expect(label, &scen, "messages().len()", "SQLite", s.messages(&gid(1), None).unwrap().len(), 1);
        }
    }

    // C16 / C08: a Nostr group id belongs to one group. Scope: two groups, two ids, every order of {save g1, save g2, rotate}.
    #[test]
    fn nostr_group_id_is_owned_by_one_group() {
        let label = "sqlite_bounded.nostr_group_id_is_owned_by_one_group";
        let (m, s) = stores();
        m.save_group(group(1, 1)).unwrap(); s.save_group(group(1, 1)).unwrap();
        let scen = "save g1 (nostr id n1); save g2 with the SAME nostr id n1";
        let (rm, rs) = (m.save_group(group(2, 1)).is_ok(), s.save_group(group(2, 1)).is_ok());
        expect(label, scen, "second save_group accepted?", "SQLite", rs, false);
        expect(label, scen, "second save_group accepted?", "memory", rm, false);
        expect(label, scen, "find_group_by_nostr_group_id(n1)", "SQLite", s.find_group_by_nostr_group_id(&[1; 32]).unwrap(), Some(group(1, 1)));
        expect(label, scen, "find_group_by_mls_group_id(g1)", "SQLite", s.find_group_by_mls_group_id(&gid(1)).unwrap(), Some(group(1, 1)));
        expect(label, scen, "find_group_by_mls_group_id(g2)", "SQLite", s.find_group_by_mls_group_id(&gid(2)).unwrap(), None);
        same(label, scen, "all_groups().len()", m.all_groups().unwrap().len(), s.all_groups().unwrap().len());
        // rotation: g1 moves to n2; n1 becomes free and can be taken by g2
        let scen = "then g1 rotates to n2 and g2 is saved with n1";
        m.save_group(group(1, 2)).unwrap(); s.save_group(group(1, 2)).unwrap();
        expect(label, scen, "find_group_by_nostr_group_id(n1) after rotation", "SQLite", s.find_group_by_nostr_group_id(&[1; 32]).unwrap(), None);
        expect(label, scen, "find_group_by_nostr_group_id(n2) after rotation", "SQLite", s.find_group_by_nostr_group_id(&[2; 32]).unwrap(), Some(group(1, 2)));
        same(label, scen, "save g2 with the freed id", m.save_group(group(2, 1)).is_ok(), s.save_group(group(2, 1)).is_ok());
        same(label, scen, "find(n1)", m.find_group_by_nostr_group_id(&[1; 32]).unwrap(), s.find_group_by_nostr_group_id(&[1; 32]).unwrap());
        // an update of an existing group replaces every field
        let mut g = group(1, 2); g.name = "renamed".into(); g.epoch = 9; g.state = GroupState::Inactive; g.last_message_at = Some(Timestamp::from(5u64));
        g.last_message_processed_at = Some(Timestamp::from(6u64)); g.last_message_id = Some(eid(3)); g.image_hash = Some([4; 32]); g.image_key = Some(Secret::new([5; 32]));
        g.image_nonce = Some(Secret::new([6; 12])); g.self_update_state = SelfUpdateState::CompletedAt(Timestamp::from(77u64));
        m.save_group(g.clone()).unwrap(); s.save_group(g.clone()).unwrap();
        expect(label, "update of every field of g1", "find_group_by_mls_group_id", "SQLite", s.find_group_by_mls_group_id(&gid(1)).unwrap(), Some(g.clone()));
        expect(label, "update of every field of g1", "find_group_by_mls_group_id", "memory", m.find_group_by_mls_group_id(&gid(1)).unwrap(), Some(g.clone()));
        // ... and a later update may LOWER or CLEAR any of them (a rollback lowers the epoch; a re-join makes the self-update Required
        // again; an image is removed): the stored record is the one saved last, not a maximum or a merge of the two
        let mut lower = g.clone(); lower.epoch = 3; lower.self_update_state = SelfUpdateState::CompletedAt(Timestamp::from(50u64));
        lower.last_message_at = Some(Timestamp::from(2u64)); lower.last_message_processed_at = Some(Timestamp::from(2u64));
        m.save_group(lower.clone()).unwrap(); s.save_group(lower.clone()).unwrap();
        expect(label, "g1 saved again with a LOWER epoch, self-update time and last-message times", "find_group_by_mls_group_id", "SQLite", s.find_group_by_mls_group_id(&gid(1)).unwrap(), Some(lower.clone()));
        expect(label, "g1 saved again with a LOWER epoch, self-update time and last-message times", "find_group_by_mls_group_id", "memory", m.find_group_by_mls_group_id(&gid(1)).unwrap(), Some(lower.clone()));
        let mut cleared = lower; cleared.self_update_state = SelfUpdateState::Required; cleared.last_message_id = None; cleared.last_message_at = None;
        cleared.last_message_processed_at = None; cleared.image_hash = None; cleared.image_key = None; cleared.image_nonce = None; cleared.state = GroupState::Active;
        m.save_group(cleared.clone()).unwrap(); s.save_group(cleared.clone()).unwrap();
        expect(label, "g1 saved again with self-update Required and the optional fields cleared", "find_group_by_mls_group_id", "SQLite", s.find_group_by_mls_group_id(&gid(1)).unwrap(), Some(cleared.clone()));
        expect(label, "g1 saved again with self-update Required and the optional fields cleared", "find_group_by_mls_group_id", "memory", m.find_group_by_mls_group_id(&gid(1)).unwrap(), Some(cleared));
    }

    // C02 / C01 / C07: a rollback to epoch E invalidates exactly the records of THIS group with epoch > E. Scope: 2 groups, message
    // epochs {None,1,2,3}, E in 0..=3; dedup records with states {Processed, Failed, Created} and epochs {None,1,2,3}.
    #[test]
    fn invalidation_and_retry_selection_follow_the_contract() {
        let label = "sqlite_bounded.invalidation_and_retry_selection";
        let eps = [None, Some(1u64), Some(2), Some(3)];
        for e in 0..=3u64 {
            let (m, s) = stores();
            for g in 1..=2u8 { m.save_group(group(g, g)).unwrap(); s.save_group(group(g, g)).unwrap(); }
            for g in 1..=2u8 { for (i, ep) in eps.iter().enumerate() {
                let x = msg(g, (g * 10 + i as u8) as u8, 10, 10, *ep, MessageState::Processed, "c", Tags::new());
                m.save_message(x.clone()).unwrap(); s.save_message(x).unwrap();
                for (j, st) in [ProcessedMessageState::Processed, ProcessedMessageState::Failed, ProcessedMessageState::Created].iter().enumerate() {
                    let p = pm((g * 40 + (i as u8) * 4 + j as u8) as u8, Some(g), *ep, *st);
                    m.save_processed_message(p.clone()).unwrap(); s.save_processed_message(p).unwrap();
                }
            } }
            // the same rumor cross-posted to both groups has the same id in both (the key of a message is (group, id)): g2 also holds
            // a message with the id of g1's epoch-3 message; a rollback of g1 must leave g2's copy alone (C04 / C09)
            { let x = msg(2, 13, 10, 10, Some(3), MessageState::Processed, "c", Tags::new()); m.save_message(x.clone()).unwrap(); s.save_message(x).unwrap(); }
            // several undecryptable events of one group wait for the same rollback (C02: every one of them is re-offered)
            for (id, g) in [(200u8, 1u8), (201, 1), (210, 2)] { let p = pm(id, Some(g), None, ProcessedMessageState::Failed); m.save_processed_message(p.clone()).unwrap(); s.save_processed_message(p).unwrap(); }
            let scen = format!("groups g1,g2 each with messages / dedup records of epochs None,1,2,3 and further Failed records without epoch (two of g1, one of g2); rollback of g1 to epoch {e}");
            let retry_m: BTreeSet<EventId> = m.find_failed_messages_for_retry(&gid(1)).unwrap().into_iter().collect();
            let retry_s: BTreeSet<EventId> = s.find_failed_messages_for_retry(&gid(1)).unwrap().into_iter().collect();
            let retry_want: BTreeSet<EventId> = BTreeSet::from([eid(40 + 1), eid(200), eid(201)]); // g1, epoch None (i=0), state Failed (j=1), and the two further ones
            expect(label, &scen, "find_failed_messages_for_retry(g1)", "SQLite", retry_s, retry_want.clone());
            expect(label, &scen, "find_failed_messages_for_retry(g1)", "memory", retry_m, retry_want);
            let inv_m: BTreeSet<EventId> = m.invalidate_messages_after_epoch(&gid(1), e).unwrap().into_iter().collect();
            let inv_s: BTreeSet<EventId> = s.invalidate_messages_after_epoch(&gid(1), e).unwrap().into_iter().collect();
            let want: BTreeSet<EventId> = eps.iter().enumerate().filter(|(_, ep)| ep.map(|x| x > e).unwrap_or(false)).map(|(i, _)| eid(10 + i as u8)).collect();
            expect(label, &scen, "invalidate_messages_after_epoch returned ids", "SQLite", inv_s, want.clone());
            expect(label, &scen, "invalidate_messages_after_epoch returned ids", "memory", inv_m, want.clone());
            for g in 1..=2u8 { for (i, _) in eps.iter().enumerate() {
                let id = eid(g * 10 + i as u8);
                let st = if g == 1 && want.contains(&id) { MessageState::EpochInvalidated } else { MessageState::Processed };
                expect(label, &scen, &format!("state of message {} of g{g}", g * 10 + i as u8), "SQLite", s.find_message_by_event_id(&gid(g), &id).unwrap().map(|x| x.state), Some(st));
                expect(label, &scen, &format!("state of message {} of g{g}", g * 10 + i as u8), "memory", m.find_message_by_event_id(&gid(g), &id).unwrap().map(|x| x.state), Some(st));
            } }
            let invp_m: BTreeSet<EventId> = m.invalidate_processed_messages_after_epoch(&gid(1), e).unwrap().into_iter().collect();
            let invp_s: BTreeSet<EventId> = s.invalidate_processed_messages_after_epoch(&gid(1), e).unwrap().into_iter().collect();
            same(label, &scen, "invalidate_processed_messages_after_epoch returned ids", invp_m.clone(), invp_s);
            for g in 1..=2u8 { for (i, ep) in eps.iter().enumerate() { for j in 0..3u8 {
                let id = eid(g * 40 + (i as u8) * 4 + j);
                let before = [ProcessedMessageState::Processed, ProcessedMessageState::Failed, ProcessedMessageState::Created][j as usize];
                let st = if g == 1 && ep.map(|x| x > e).unwrap_or(false) { ProcessedMessageState::EpochInvalidated } else { before };
                expect(label, &scen, &format!("state of dedup record {} (group g{g}, epoch {ep:?})", g * 40 + (i as u8) * 4 + j), "SQLite", s.find_processed_message_by_event_id(&id).unwrap().map(|x| x.state), Some(st));
                expect(label, &scen, &format!("state of dedup record {} (group g{g}, epoch {ep:?})", g * 40 + (i as u8) * 4 + j), "memory", m.find_processed_message_by_event_id(&id).unwrap().map(|x| x.state), Some(st));
            } } }
            expect(label, &scen, "state of g2's message that shares its id (13) with a message of g1", "SQLite", s.find_message_by_event_id(&gid(2), &eid(13)).unwrap().map(|x| x.state), Some(MessageState::Processed));
            expect(label, &scen, "state of g2's message that shares its id (13) with a message of g1", "memory", m.find_message_by_event_id(&gid(2), &eid(13)).unwrap().map(|x| x.state), Some(MessageState::Processed));
            let fi_m: BTreeSet<EventId> = m.find_invalidated_messages(&gid(1)).unwrap().into_iter().map(|x| x.id).collect();
            let fi_s: BTreeSet<EventId> = s.find_invalidated_messages(&gid(1)).unwrap().into_iter().map(|x| x.id).collect();
            expect(label, &scen, "find_invalidated_messages(g1)", "SQLite", fi_s, want.clone());
            expect(label, &scen, "find_invalidated_messages(g1)", "memory", fi_m, want);
            // only a Failed record can be marked retryable
            same(label, &scen, "mark_processed_message_retryable(failed record)", m.mark_processed_message_retryable(&eid(41)).is_ok(), s.mark_processed_message_retryable(&eid(41)).is_ok());
            same(label, &scen, "mark_processed_message_retryable(processed record)", m.mark_processed_message_retryable(&eid(80)).is_ok(), s.mark_processed_message_retryable(&eid(80)).is_ok());
            expect(label, &scen, "state after mark retryable", "SQLite", s.find_processed_message_by_event_id(&eid(41)).unwrap().map(|x| x.state), Some(ProcessedMessageState::Retryable));
        }
    }

    // C17: the epoch hint of a media message is looked up among the messages of THIS group. Scope: two groups holding the same tag
    // content at different epochs, plus a message without epoch.
    #[test]
    fn epoch_hint_lookup_is_scoped_to_the_group() {
        let label = "sqlite_bounded.epoch_hint_lookup_is_scoped_to_the_group";
        let tag = |h: &str| Tags::from_list(vec![Tag::custom(nostr::TagKind::Custom("imeta".into()), [format!("url https://x/{h}"), format!("x {h}"), "n 00".to_string()])]);
        for first in [1u8, 2u8] {
            let (m, s) = stores();
            for g in 1..=2u8 { m.save_group(group(g, g)).unwrap(); s.save_group(group(g, g)).unwrap(); }
            let a = msg(1, 1, 10, 10, Some(5), MessageState::Processed, "c", tag("abcd"));
            let b = msg(2, 2, 10, 10, Some(9), MessageState::Processed, "c", tag("abcd"));
            let c = msg(1, 3, 10, 10, None, MessageState::Processed, "c", tag("ffff"));
            let seq = if first == 1 { vec![a.clone(), b.clone(), c.clone()] } else { vec![b.clone(), a.clone(), c.clone()] };
            for x in seq { m.save_message(x.clone()).unwrap(); s.save_message(x).unwrap(); }
            let scen = format!("g1 announces file abcd in epoch 5, g2 announces the same file in epoch 9 (g{first} saved first); g1 also holds a message without epoch for file ffff");
            for (g, want) in [(1u8, Some(5u64)), (2u8, Some(9u64))] {
                expect(label, &scen, &format!("find_message_epoch_by_tag_content(g{g}, \"x abcd\")"), "SQLite", s.find_message_epoch_by_tag_content(&gid(g), "x abcd").unwrap(), want);
                expect(label, &scen, &format!("find_message_epoch_by_tag_content(g{g}, \"x abcd\")"), "memory", m.find_message_epoch_by_tag_content(&gid(g), "x abcd").unwrap(), want);
            }
            // the SENDER's own announcement is stored as Created until its relay echo arrives: it is a hint like any other
            { let d = msg(1, 4, 10, 10, Some(7), MessageState::Created, "c", tag("cccc")); m.save_message(d.clone()).unwrap(); s.save_message(d).unwrap(); }
            expect(label, &scen, "lookup of a file announced by a message still in state Created (the sender's own, before its echo)", "SQLite", s.find_message_epoch_by_tag_content(&gid(1), "x cccc").unwrap(), Some(7));
            expect(label, &scen, "lookup of a file announced by a message still in state Created (the sender's own, before its echo)", "memory", m.find_message_epoch_by_tag_content(&gid(1), "x cccc").unwrap(), Some(7));
            expect(label, &scen, "lookup of a file announced only without epoch", "SQLite", s.find_message_epoch_by_tag_content(&gid(1), "x ffff").unwrap(), None);
            expect(label, &scen, "lookup of an unknown file", "SQLite", s.find_message_epoch_by_tag_content(&gid(1), "x 0000").unwrap(), None);
            expect(label, &scen, "lookup with LIKE wildcards in the needle", "SQLite", s.find_message_epoch_by_tag_content(&gid(1), "x %").unwrap(), None);
            // "content_substring is treated as a literal substring match": letter case matters (F21: LIKE is case-insensitive for ASCII)
            same(label, &scen, "lookup with a needle that differs from the stored text in letter case only (\"x ABCD\")", m.find_message_epoch_by_tag_content(&gid(1), "x ABCD").unwrap(), s.find_message_epoch_by_tag_content(&gid(1), "x ABCD").unwrap());
            expect(label, &scen, "lookup with a needle that differs in letter case only", "SQLite", s.find_message_epoch_by_tag_content(&gid(1), "x ABCD").unwrap(), None);
            same(label, &scen, "lookup with `_` in the needle", m.find_message_epoch_by_tag_content(&gid(1), "x a_cd").unwrap(), s.find_message_epoch_by_tag_content(&gid(1), "x a_cd").unwrap());
            same(label, &scen, "lookup with the empty needle", m.find_message_epoch_by_tag_content(&gid(1), "").unwrap().is_some(), s.find_message_epoch_by_tag_content(&gid(1), "").unwrap().is_some());
        }
        // the same file announced twice in one group, once by a message stored WITHOUT an epoch: the announcement that has an epoch is the
        // hint ("Some(epoch) if a matching message with a non-null epoch exists"), whichever of the two has the smaller id / was saved first
        for (id_none, id_some) in [(5u8, 6u8), (6, 5)] { for none_first in [true, false] {
            let (m, s) = stores();
            m.save_group(group(1, 1)).unwrap(); s.save_group(group(1, 1)).unwrap();
            let n = msg(1, id_none, 10, 10, None, MessageState::Processed, "c", tag("eeee"));
            let e = msg(1, id_some, 10, 10, Some(4), MessageState::Processed, "c", tag("eeee"));
            let seq = if none_first { vec![n.clone(), e.clone()] } else { vec![e.clone(), n.clone()] };
            for x in seq { m.save_message(x.clone()).unwrap(); s.save_message(x).unwrap(); }
            let scen = format!("g1 holds two announcements of file eeee: message {id_none} without epoch, message {id_some} in epoch 4 (the one without epoch saved {})", if none_first { "first" } else { "last" });
            expect(label, &scen, "find_message_epoch_by_tag_content(g1, \"x eeee\")", "SQLite", s.find_message_epoch_by_tag_content(&gid(1), "x eeee").unwrap(), Some(4));
            expect(label, &scen, "find_message_epoch_by_tag_content(g1, \"x eeee\")", "memory", m.find_message_epoch_by_tag_content(&gid(1), "x eeee").unwrap(), Some(4));
        } }
    }

    // C20 / C01: snapshots keep their age across a rollback of a sibling, a rollback restores the group's rows and leaves the other group
    // alone, pruning removes exactly the older ones. Scope: 2 groups, 3 snapshots, one rollback; needs wall-clock seconds to differ (sleeps 1.1 s).
    #[test]
    fn snapshots_keep_their_age_and_restore_only_their_group() {
        let label = "sqlite_bounded.snapshots_keep_their_age_and_restore_only_their_group";
        let (m, s) = stores();
        for g in 1..=2u8 { m.save_group(group(g, g)).unwrap(); s.save_group(group(g, g)).unwrap(); }
        let sec = |g: u8, e: u64, v: u8| GroupExporterSecret { mls_group_id: gid(g), epoch: e, secret: Secret::new([v; 32]) };
        let relays = |u: &str| BTreeSet::from([RelayUrl::parse(u).unwrap()]);
        // the record at snapshot time (B) and a later record (C) that differs from it in EVERY field a rollback must restore
        let pk2 = PublicKey::parse("npub1t5sdrgt7md8a8lf77ka02deta4vj35p3ktfskd5yz68pzmt9334qy6qks0").unwrap();
        let group_b = || { let mut g = group(1, 1); g.name = "state B".into(); g.description = "desc B".into(); g.epoch = 2; g.admin_pubkeys = BTreeSet::from([pk(), pk2]);
            g.last_message_id = Some(eid(7)); g.last_message_at = Some(Timestamp::from(70u64)); g.last_message_processed_at = Some(Timestamp::from(71u64));
            g.image_hash = Some([1u8; 32]); g.image_key = Some(Secret::new([2u8; 32])); g.image_nonce = Some(Secret::new([3u8; 12])); g.self_update_state = SelfUpdateState::CompletedAt(Timestamp::from(5u64)); g };
        let group_c = || { let mut g = group(1, 1); g.name = "state C".into(); g.description = "desc C".into(); g.epoch = 3; g.admin_pubkeys = BTreeSet::from([pk()]);
            g.last_message_id = Some(eid(8)); g.last_message_at = Some(Timestamp::from(80u64)); g.last_message_processed_at = Some(Timestamp::from(81u64));
            g.image_hash = Some([4u8; 32]); g.image_key = Some(Secret::new([5u8; 32])); g.image_nonce = Some(Secret::new([6u8; 12])); g.self_update_state = SelfUpdateState::Required; g.state = GroupState::Inactive; g };
        // state A of g1
        for st in [&m as &dyn StoreOps, &s as &dyn StoreOps] {
            st.put_secret(sec(1, 1, 1)); st.put_relays(1, relays("wss://a.example")); st.put_secret(sec(2, 1, 9)); st.put_relays(2, relays("wss://z.example"));
            st.snap(1, "A");
        }
        std::thread::sleep(std::time::Duration::from_millis(1100));
        for st in [&m as &dyn StoreOps, &s as &dyn StoreOps] {
            st.put_group(group_b());
            st.put_secret(sec(1, 2, 2)); st.put_relays(1, relays("wss://b.example"));
            st.snap(1, "B");
            st.put_group(group_c());
            st.put_secret(sec(1, 3, 3)); st.put_relays(1, relays("wss://c.example"));
            let mut g2 = group(2, 2); g2.name = "g2 moved on".into(); g2.epoch = 5; st.put_group(g2); st.put_secret(sec(2, 5, 8));
        }
        let before_m = m.list_group_snapshots(&gid(1)).unwrap(); let before_s = s.list_group_snapshots(&gid(1)).unwrap();
        same(label, "two snapshots A (older) and B of g1", "names listed oldest first", before_m.iter().map(|x| x.0.clone()).collect::<Vec<_>>(), before_s.iter().map(|x| x.0.clone()).collect::<Vec<_>>());
        std::thread::sleep(std::time::Duration::from_millis(1100));
        m.rollback_group_to_snapshot(&gid(1), "B").unwrap(); s.rollback_group_to_snapshot(&gid(1), "B").unwrap();
        let scen = "g1: snapshot A at t0, snapshot B at t0+1s, more changes, then (at t0+2s) rollback to B; g2 changed in between";
        let after_s = s.list_group_snapshots(&gid(1)).unwrap(); let after_m = m.list_group_snapshots(&gid(1)).unwrap();
        expect(label, scen, "snapshots of g1 after the rollback (name, created_at): B consumed, A kept WITH ITS AGE", "SQLite", after_s, before_s.iter().filter(|x| x.0 == "A").cloned().collect::<Vec<_>>());
        expect(label, scen, "snapshots of g1 after the rollback (name, created_at): B consumed, A kept WITH ITS AGE", "memory", after_m, before_m.iter().filter(|x| x.0 == "A").cloned().collect::<Vec<_>>());
        for (name, st) in [("memory", &m as &dyn StoreOps), ("SQLite", &s as &dyn StoreOps)] {
            expect(label, scen, "g1 record after rollback: EVERY field is the one of snapshot time (B), none of the later state C", name, st.get_group(1).map(|g| format!("{g:?}")), Some(format!("{:?}", group_b())));
            expect(label, scen, "g1 relays after rollback", name, st.get_relays(1), relays("wss://b.example").into_iter().map(|r| r.to_string()).collect::<BTreeSet<_>>());
            expect(label, scen, "g1 exporter secret of epoch 1 (OLDER than the snapshot's epoch) after rollback", name, st.get_secret(1, 1), Some([1u8; 32]));
            expect(label, scen, "g1 exporter secret of epoch 2 after rollback", name, st.get_secret(1, 2), Some([2u8; 32]));
            expect(label, scen, "g1 exporter secret of epoch 3 (written after B) after rollback", name, st.get_secret(1, 3), None);
            expect(label, scen, "g2 record untouched by the rollback of g1", name, st.get_group(2).map(|g| (g.name, g.epoch)), Some(("g2 moved on".to_string(), 5)));
            expect(label, scen, "g2 exporter secret untouched", name, st.get_secret(2, 5), Some([8u8; 32]));
        }
        // pruning: everything strictly older than the bound goes, nothing else
        let a_created = before_s.iter().find(|x| x.0 == "A").unwrap().1;
        // the returned count is the number of SNAPSHOTS removed (trait doc), not of table rows (F22)
        expect(label, scen, "prune_expired_snapshots(created_at of A) removes nothing", "memory", m.prune_expired_snapshots(before_m.iter().find(|x| x.0 == "A").unwrap().1).unwrap(), 0);
        expect(label, scen, "prune_expired_snapshots(created_at of A) removes nothing", "SQLite", s.prune_expired_snapshots(a_created).unwrap(), 0);
        expect(label, scen, "A still listed after pruning with its own age as bound", "memory", m.list_group_snapshots(&gid(1)).unwrap().len(), 1);
        expect(label, scen, "A still listed after pruning with its own age as bound", "SQLite", s.list_group_snapshots(&gid(1)).unwrap().len(), 1);
        expect(label, scen, "prune_expired_snapshots(created_at of A + 1): number of snapshots removed (A spans several table rows)", "SQLite", s.prune_expired_snapshots(a_created + 1).unwrap(), 1);
        expect(label, scen, "prune_expired_snapshots(created_at of A + 1): number of snapshots removed", "memory", m.prune_expired_snapshots(before_m.iter().find(|x| x.0 == "A").unwrap().1 + 1).unwrap(), 1);
        expect(label, scen, "nothing listed afterwards", "SQLite", s.list_group_snapshots(&gid(1)).unwrap().len(), 0);
    }
    // C20 (restart): a fresh EpochSnapshotManager over the SQLite back end -- what a restart leaves -- must read the stored snapshots of a
    // group back in the order they were taken, ALSO when several were taken within one wall-clock second (a backlog of commits caught up
    // quickly) and their names do not sort that way (epoch 10 sorts before 8 and 9; a larger commit id may belong to the older commit).
    // Otherwise the next commit evicts a recent snapshot instead of the oldest and a rollback releases the wrong ones.
    // Scope (quick): retention 3, three same-second snapshots over the epoch triples {8,9,10} and {1,2,3} with ascending and descending
    // commit ids, then (after the restart) one more commit resp. one rollback. Thorough adds {98,99,100}, retention 2 and 4.
    #[test]
    fn restart_reads_same_second_snapshots_back_in_the_order_taken() {
        use crate::epoch_snapshots::EpochSnapshotManager;
        let label = "sqlite_bounded.restart_reads_same_second_snapshots_back_in_the_order_taken";
        let thorough = std::env::var("VERIF_TIER").as_deref() == Ok("thorough");
        let cid = |n: u64| EventId::from_hex(&format!("{:064x}", n)).unwrap();
        let epochs_of = |s: &MdkSqliteStorage| -> Vec<u64> {
            let mut v: Vec<u64> = s.list_group_snapshots(&gid(1)).unwrap().into_iter().map(|(name, _)| name.split('_').nth(2).unwrap().parse::<u64>().unwrap()).collect();
            v.sort(); v
        };
        // the first run: `n` commits of consecutive epochs from `first`, all within one second (retried until the stored stamps agree)
        let first_run = |first: u64, n: u64, descending_ids: bool, retention: usize| -> MdkSqliteStorage {
            for _ in 0..40 {
                let s = MdkSqliteStorage::new_unencrypted(":memory:").expect("sqlite in memory");
                s.save_group(group(1, 1)).unwrap();
                let manager = EpochSnapshotManager::new(retention);
                while std::time::SystemTime::now().duration_since(std::time::UNIX_EPOCH).unwrap().subsec_millis() > 500 { std::thread::sleep(std::time::Duration::from_millis(20)); }
                for k in 0..n { let e = first + k; manager.create_snapshot(&s, &gid(1), e, &cid(if descending_ids { 1000 - e } else { e }), 5000 + e).unwrap(); }
                let stamps: BTreeSet<u64> = s.list_group_snapshots(&gid(1)).unwrap().into_iter().map(|x| x.1).collect();
                if stamps.len() == 1 { return s; }
            }
            panic!("could not take the snapshots within one second (not a counterexample)");
        };
        let mut triples: Vec<u64> = vec![8, 1];
        let mut retentions: Vec<usize> = vec![3];
        if thorough { triples.push(98); retentions = vec![2, 3, 4]; }
        for &retention in &retentions { for &first in &triples { for descending_ids in [false, true] {
            let n = retention as u64;
            let scen = format!("retention {retention}; first run: commits of epochs {first}..={} applied within one second (commit ids {}); restart", first + n - 1, if descending_ids { "descending" } else { "ascending" });
            // (a) after the restart one more commit: the oldest snapshot goes, the most recent `retention` stay
            let s = first_run(first, n, descending_ids, retention);
            let manager = EpochSnapshotManager::new(retention);
            manager.create_snapshot(&s, &gid(1), first + n, &cid(first + n), 5000 + first + n).unwrap();
            expect(label, &format!("{scen}; one more commit (epoch {})", first + n), "epochs of the stored snapshots", "SQLite", epochs_of(&s), ((first + 1)..=(first + n)).collect::<Vec<_>>());
            // (c) the restart comes with a LOWER retention (configuration changed between sessions): the most recent ones are kept
            if retention >= 2 {
                let s = first_run(first, n, descending_ids, retention);
                let r2 = retention - 1;
                let manager = EpochSnapshotManager::new(r2);
                manager.create_snapshot(&s, &gid(1), first + n, &cid(first + n), 5000 + first + n).unwrap();
                expect(label, &format!("{scen} with retention lowered to {r2}; one more commit (epoch {})", first + n), "epochs of the stored snapshots", "SQLite", epochs_of(&s), ((first + n + 1 - r2 as u64)..=(first + n)).collect::<Vec<_>>());
            }
            // (b) after the restart a rollback to the second snapshot: it is consumed and every later one released, the older one kept
            if retention >= 3 {
                let s = first_run(first, n, descending_ids, retention);
                let manager = EpochSnapshotManager::new(retention);
                manager.rollback_to_epoch(&s, &gid(1), first + 1).unwrap();
                expect(label, &format!("{scen}; rollback to epoch {}", first + 1), "epochs of the stored snapshots", "SQLite", epochs_of(&s), vec![first]);
            }
        }}}
    }
    // C04 / C02 / C10 "a lookup returns the last value saved under that key": a message whose timestamps sit at the edges of the integer
    // ranges (a rumor's created_at is chosen by its sender: C04 "arbitrary created_at") is either stored EXACTLY as given or refused --
    // never stored with a clamped, wrapped or otherwise altered timestamp. (Whether such a save is accepted is NOT compared between the
    // back ends: SQLite refuses values above i64::MAX, the memory back end stores them.)
    // Scope: created_at and processed_at over {0, 1, i64::MAX - 1, i64::MAX, i64::MAX + 1, u64::MAX}, both back ends.
    #[test]
    fn boundary_timestamps_are_stored_exactly_or_refused() {
        let label = "sqlite_bounded.boundary_timestamps_are_stored_exactly_or_refused";
        let edge: [u64; 6] = [0, 1, i64::MAX as u64 - 1, i64::MAX as u64, i64::MAX as u64 + 1, u64::MAX];
        fn run<S: MdkStorageProvider>(label: &str, back: &'static str, st: &S, edge: &[u64]) {
            st.save_group(group(1, 1)).unwrap();
            let mut n = 0u8;
            for &c in edge { for &p in edge {
                n += 1;
                let m = msg(1, n, c, p, Some(1), MessageState::Processed, "edge", Tags::new());
                let scen = format!("save_message with created_at = {c}, processed_at = {p}");
                if st.save_message(m.clone()).is_ok() {
                    expect(label, &scen, "find_message_by_event_id after an ACCEPTED save", back, st.find_message_by_event_id(&gid(1), &eid(n)).unwrap(), Some(m));
                } else {
                    expect(label, &scen, "find_message_by_event_id after a REFUSED save", back, st.find_message_by_event_id(&gid(1), &eid(n)).unwrap(), None);
                }
            }}
        }
        let (m, s) = stores();
        run(label, "memory", &m, &edge);
        run(label, "SQLite", &s, &edge);
    }
    // C09 "consumes only that snapshot ... destroys no other snapshots" / C10: a snapshot name is scoped to its group (the trait keys
    // snapshots by group AND name). Two groups hold snapshots under the SAME names; rolling one group back to N, and releasing M of one
    // group, leave the other group's N and M in place and usable. Scope: 2 groups, 2 shared names, both back ends.
    #[test]
    fn snapshot_names_are_scoped_to_their_group() {
        let label = "sqlite_bounded.snapshot_names_are_scoped_to_their_group";
        let (m, s) = stores();
        for (name, st) in [("memory", &m as &dyn MdkStorageProviderDyn), ("SQLite", &s as &dyn MdkStorageProviderDyn)] {
            for g in 1..=2u8 { let mut r = group(g, g); r.name = format!("g{g} at snapshot time"); st.put_group_(r); st.snap_(g, "N"); st.snap_(g, "M"); }
            for g in 1..=2u8 { let mut r = group(g, g); r.name = format!("g{g} later"); r.epoch = 7; st.put_group_(r); }
            let scen = "g1 and g2 each take snapshots named N and M, both groups change, g1 rolls back to N and releases M";
            expect(label, scen, "rollback_group_to_snapshot(g1, N)", name, st.rollback_(1, "N"), true);
            expect(label, scen, "release_group_snapshot(g1, M)", name, st.release_(1, "M"), true);
            expect(label, scen, "snapshot names of g1 afterwards", name, st.names_(1), Vec::<String>::new());
            expect(label, scen, "snapshot names of g2 afterwards (untouched)", name, st.names_(2), vec!["M".to_string(), "N".to_string()]);
            expect(label, scen, "g2 record (untouched by g1's rollback)", name, st.group_name_(2), Some("g2 later".to_string()));
            expect(label, scen, "then rollback_group_to_snapshot(g2, N)", name, st.rollback_(2, "N"), true);
            expect(label, scen, "g2 record after ITS rollback", name, st.group_name_(2), Some("g2 at snapshot time".to_string()));
            expect(label, scen, "g1 record after g2's rollback", name, st.group_name_(1), Some("g1 at snapshot time".to_string()));
            expect(label, scen, "snapshot names of g2 after its rollback", name, st.names_(2), vec!["M".to_string()]);
            // boundary value of the prune bound: everything is older than u64::MAX
            expect(label, scen, "then prune_expired_snapshots(u64::MAX): number of snapshots removed", name, st.prune_(u64::MAX), Some(1));
            expect(label, scen, "snapshot names of g2 after pruning everything", name, st.names_(2), Vec::<String>::new());
        }
    }
    trait MdkStorageProviderDyn { fn put_group_(&self, g: Group); fn snap_(&self, g: u8, n: &str); fn rollback_(&self, g: u8, n: &str) -> bool; fn release_(&self, g: u8, n: &str) -> bool; fn names_(&self, g: u8) -> Vec<String>; fn group_name_(&self, g: u8) -> Option<String>; fn prune_(&self, t: u64) -> Option<usize>; fn owner_(&self, n: u8) -> Option<String>; fn group_(&self, g: u8) -> Option<Group>; }
    impl<T: MdkStorageProvider> MdkStorageProviderDyn for T {
        fn put_group_(&self, g: Group) { self.save_group(g).unwrap() }
        fn snap_(&self, g: u8, n: &str) { self.create_group_snapshot(&gid(g), n).unwrap() }
        fn rollback_(&self, g: u8, n: &str) -> bool { self.rollback_group_to_snapshot(&gid(g), n).is_ok() }
        fn release_(&self, g: u8, n: &str) -> bool { self.release_group_snapshot(&gid(g), n).is_ok() }
        fn names_(&self, g: u8) -> Vec<String> { let mut v: Vec<String> = self.list_group_snapshots(&gid(g)).unwrap().into_iter().map(|x| x.0).collect(); v.sort(); v }
        fn group_name_(&self, g: u8) -> Option<String> { self.find_group_by_mls_group_id(&gid(g)).unwrap().map(|g| g.name) }
        fn prune_(&self, t: u64) -> Option<usize> { self.prune_expired_snapshots(t).ok() }
        fn owner_(&self, n: u8) -> Option<String> { self.find_group_by_nostr_group_id(&[n; 32]).unwrap().map(|g| g.name) }
        fn group_(&self, g: u8) -> Option<Group> { self.find_group_by_mls_group_id(&gid(g)).unwrap() }
    }
    // C18 / C10 "exact pagination ... incl. boundary values": an offset beyond every row -- up to usize::MAX -- gives an empty page on both
    // back ends, for the message listing and for the pending welcomes (F20: `offset as i64` wrapped negative = first page on SQLite).
    #[test]
    fn huge_offsets_give_an_empty_page() {
        let label = "sqlite_bounded.huge_offsets_give_an_empty_page";
        let (m, s) = stores();
        m.save_group(group(1, 1)).unwrap(); s.save_group(group(1, 1)).unwrap();
        for i in 1..=3u8 { let x = msg(1, i, 10 + i as u64, 10, Some(1), MessageState::Processed, "c", Tags::new()); m.save_message(x.clone()).unwrap(); s.save_message(x).unwrap(); }
        let welcome = |id: u8| Welcome {
            id: eid(id), event: UnsignedEvent { id: Some(eid(id)), pubkey: pk(), created_at: Timestamp::from(10u64), kind: Kind::MlsWelcome, tags: Tags::new(), content: "w".into() },
            mls_group_id: gid(1), nostr_group_id: [1; 32], group_name: format!("n{id}"), group_description: format!("d{id}"), group_image_hash: None, group_image_key: None, group_image_nonce: None,
            group_admin_pubkeys: BTreeSet::from([pk()]), group_relays: BTreeSet::from([RelayUrl::parse("wss://r.example").unwrap()]), welcomer: pk(), member_count: 3, state: WelcomeState::Pending, wrapper_event_id: eid(id.wrapping_add(100)),
        };
        for i in 1..=3u8 { let w = welcome(i); m.save_welcome(w.clone()).unwrap(); s.save_welcome(w).unwrap(); }
        for off in [3usize, 4, u32::MAX as usize, i64::MAX as usize - 1, i64::MAX as usize, i64::MAX as usize + 1, usize::MAX - 1, usize::MAX] {
            let scen = format!("3 stored messages / 3 pending welcomes, limit 2, offset {off}");
            for so in [MessageSortOrder::CreatedAtFirst, MessageSortOrder::ProcessedAtFirst] {
                let p = Pagination::with_sort_order(Some(2), Some(off), so);
                expect(label, &scen, &format!("messages() {so:?}: number of rows"), "SQLite", s.messages(&gid(1), Some(p.clone())).map(|v| v.len()).ok(), Some(0));
                expect(label, &scen, &format!("messages() {so:?}: number of rows"), "memory", m.messages(&gid(1), Some(p)).map(|v| v.len()).ok(), Some(0));
            }
            let p = mdk_storage_traits::welcomes::Pagination::new(Some(2), Some(off));
            expect(label, &scen, "pending_welcomes(): number of rows", "SQLite", s.pending_welcomes(Some(p.clone())).map(|v| v.len()).ok(), Some(0));
            expect(label, &scen, "pending_welcomes(): number of rows", "memory", m.pending_welcomes(Some(p)).map(|v| v.len()).ok(), Some(0));
        }
    }
    // C10 "a lookup returns the last value saved under that key", two corner inputs that the SQLite schema cannot represent. Both FAIL on the
    // unchanged tree and are recorded known findings (F23, F24: known_findings.txt); each has its own test so that nothing else hides behind them.
    #[test]
    fn self_update_completed_at_zero_reads_back() {
        let label = "sqlite_bounded.self_update_completed_at_zero_reads_back";
        let (m, s) = stores();
        let mut g = group(1, 1); g.self_update_state = SelfUpdateState::CompletedAt(Timestamp::from(0u64));
        m.save_group(g.clone()).unwrap(); s.save_group(g.clone()).unwrap();
        let scen = "save_group with self_update_state = CompletedAt(Timestamp 0)";
        expect(label, scen, "self_update_state read back", "memory", m.find_group_by_mls_group_id(&gid(1)).unwrap().map(|g| g.self_update_state), Some(g.self_update_state));
        expect(label, scen, "self_update_state read back", "SQLite", s.find_group_by_mls_group_id(&gid(1)).unwrap().map(|g| g.self_update_state), Some(g.self_update_state));
    }
    #[test]
    fn snapshot_of_a_group_without_rows_exists() {
        let label = "sqlite_bounded.snapshot_of_a_group_without_rows_exists";
        let (m, s) = stores();
        let scen = "create_group_snapshot(g5, early) before anything of g5 is stored ; save_group(g5) ; rollback_group_to_snapshot(g5, early)";
        for (name, st) in [("memory", &m as &dyn MdkStorageProviderDyn), ("SQLite", &s as &dyn MdkStorageProviderDyn)] {
            st.snap_(5, "early");
            expect(label, scen, "snapshot names of g5 after the snapshot", name, st.names_(5), vec!["early".to_string()]);
            st.put_group_(group(5, 5));
            expect(label, scen, "rollback accepted", name, st.rollback_(5, "early"), true);
            expect(label, scen, "g5 record after the rollback (none existed at snapshot time)", name, st.group_name_(5), None);
        }
    }
    // C10 "a lookup returns the last value saved under that key" / C17 (a file shared long ago is decrypted with the exporter secret of ITS
    // epoch): saving the exporter secret of a later epoch, or of another group, removes no earlier one. Scope: 2 groups, epochs 1..=12.
    #[test]
    fn exporter_secrets_of_all_epochs_stay_readable() {
        let label = "sqlite_bounded.exporter_secrets_of_all_epochs_stay_readable";
        let (m, s) = stores();
        for (name, st) in [("memory", &m as &dyn StoreOps), ("SQLite", &s as &dyn StoreOps)] {
            for g in 1..=2u8 { st.put_group(group(g, g)); }
            for e in 1..=12u64 { for g in 1..=2u8 { st.put_secret(GroupExporterSecret { mls_group_id: gid(g), epoch: e, secret: Secret::new([(e as u8) * 2 + g; 32]) }); } }
            for e in 1..=12u64 { for g in 1..=2u8 {
                expect(label, "exporter secrets of epochs 1..=12 saved in order for g1 and g2", &format!("get_group_exporter_secret(g{g}, epoch {e})"), name, st.get_secret(g, e), Some([(e as u8) * 2 + g; 32]));
            }}
        }
    }
    // C08 / C16 / C10 "a Nostr group id belongs to one group ... never to a different group": a rollback to a snapshot that carries a Nostr
    // group id which ANOTHER group has taken since (the group rotated its id, the old id was re-used) is refused on both back ends and
    // changes nothing; each id keeps resolving to its one owner (F31: the memory back end restored and left both groups under one id).
    #[test]
    fn rollback_never_gives_two_groups_one_nostr_group_id() {
        let label = "sqlite_bounded.rollback_never_gives_two_groups_one_nostr_group_id";
        let (m, s) = stores();
        let scen = "g1 (nostr id n1) takes snapshot S ; g1 rotates to n2 ; g2 is saved with the freed id n1 ; rollback of g1 to S";
        for (name, st) in [("memory", &m as &dyn MdkStorageProviderDyn), ("SQLite", &s as &dyn MdkStorageProviderDyn)] {
            st.put_group_(group(1, 1)); st.snap_(1, "S"); st.put_group_(group(1, 2)); st.put_group_(group(2, 1));
            expect(label, scen, "rollback accepted?", name, st.rollback_(1, "S"), false);
            expect(label, scen, "owner of n1 afterwards", name, st.owner_(1), Some("g2".to_string()));
            expect(label, scen, "owner of n2 afterwards", name, st.owner_(2), Some("g1".to_string()));
            expect(label, scen, "g1 afterwards", name, st.group_(1), Some(group(1, 2)));
            expect(label, scen, "g2 afterwards", name, st.group_(2), Some(group(2, 1)));
            // a refused rollback consumes nothing: the snapshot is still there and works once the id is free again
            expect(label, scen, "snapshot names of g1 after the REFUSED rollback", name, st.names_(1), vec!["S".to_string()]);
            st.put_group_(group(2, 3));
            let scen2 = "... ; g2 moves on to n3 ; rollback of g1 to S again";
            expect(label, scen2, "rollback accepted?", name, st.rollback_(1, "S"), true);
            expect(label, scen2, "g1 afterwards (restored)", name, st.group_(1), Some(group(1, 1)));
            expect(label, scen2, "owner of n1 afterwards", name, st.owner_(1), Some("g1".to_string()));
            expect(label, scen2, "snapshot names of g1 afterwards (consumed)", name, st.names_(1), Vec::<String>::new());
        }
    }
    // C11 / C09 / C06 "rollback is all-or-nothing": a rollback whose restore FAILS inside its transaction (the snapshot carries a Nostr group
    // id that another group has taken since) is refused, changes nothing, and leaves the connection usable: the next snapshot succeeds and
    // everything written afterwards is seen by a later session too. Scope: SQLite, 2 groups, one id rotated and re-used.
    #[test]
    fn failed_restore_leaves_no_open_transaction() {
        let label = "sqlite_bounded.failed_restore_leaves_no_open_transaction";
        let dir = std::env::temp_dir().join(format!("verif-bounded-{}-{}", std::process::id(), "failed-restore"));
        let _ = std::fs::remove_dir_all(&dir); std::fs::create_dir_all(&dir).unwrap();
        let db = dir.join("db.sqlite");
        let scen = "g1 (nostr id n1) takes snapshot S ; g1 rotates to n2 ; g2 is saved with the freed id n1 ; rollback of g1 to S (its row would need n1 again)";
        {
            let s = MdkSqliteStorage::new_unencrypted(&db).expect("sqlite file");
            s.save_group(group(1, 1)).unwrap();
            s.create_group_snapshot(&gid(1), "S").unwrap();
            s.save_group(group(1, 2)).unwrap();
            s.save_group(group(2, 1)).unwrap();
            let r = s.rollback_group_to_snapshot(&gid(1), "S");
            expect(label, scen, "the rollback is refused", "SQLite", r.is_err(), true);
            expect(label, scen, "g1 after the refused rollback", "SQLite", s.find_group_by_mls_group_id(&gid(1)).unwrap(), Some(group(1, 2)));
            expect(label, scen, "g2 after the refused rollback", "SQLite", s.find_group_by_mls_group_id(&gid(2)).unwrap(), Some(group(2, 1)));
            expect(label, scen, "the next create_group_snapshot succeeds (no transaction left open)", "SQLite", s.create_group_snapshot(&gid(2), "T").is_ok(), true);
            let mut g = group(2, 1); g.name = "written after the refused rollback".into(); s.save_group(g).unwrap();
        }
        let s = MdkSqliteStorage::new_unencrypted(&db).expect("sqlite file, second session");
        expect(label, scen, "a later session sees what was written after the refused rollback", "SQLite", s.find_group_by_mls_group_id(&gid(2)).unwrap().map(|g| g.name), Some("written after the refused rollback".to_string()));
        expect(label, scen, "a later session sees the snapshot taken after the refused rollback", "SQLite", s.list_group_snapshots(&gid(2)).unwrap().len(), 1);
        let _ = std::fs::remove_dir_all(&dir);
    }
    // C18 / C10 "out-of-range limits are refused": also for a group that holds no message yet (the limit check must not hide behind the
    // lookup of the group's messages). Scope: an empty group, limits 0, 1, MAX, MAX + 1, offsets 0 and 5, both sort orders, both back ends.
    #[test]
    fn limits_are_validated_for_a_group_without_messages() {
        let label = "sqlite_bounded.limits_are_validated_for_a_group_without_messages";
        let (m, s) = stores();
        m.save_group(group(1, 1)).unwrap(); s.save_group(group(1, 1)).unwrap();
        for limit in [0usize, 1, 10000, 10001] { for off in [0usize, 5] { for so in [MessageSortOrder::CreatedAtFirst, MessageSortOrder::ProcessedAtFirst] {
            let scen = format!("a group without messages, limit {limit}, offset {off}, {so:?}");
            let want = if (1..=10000).contains(&limit) { Some(0usize) } else { None };
            let p = Pagination::with_sort_order(Some(limit), Some(off), so);
            expect(label, &scen, "messages(): Ok(number of rows) or refused", "SQLite", s.messages(&gid(1), Some(p.clone())).map(|v| v.len()).ok(), want);
            expect(label, &scen, "messages(): Ok(number of rows) or refused", "memory", m.messages(&gid(1), Some(p)).map(|v| v.len()).ok(), want);
        }}}
    }
    // C11 / C06 / C20: pruning expired snapshots leaves the connection usable and what is written afterwards durable -- whether the prune
    // removed something or nothing. Scope: SQLite file, one group, two prunes (one removing a snapshot, one removing none), one restart.
    #[test]
    fn prune_leaves_no_open_transaction() {
        let label = "sqlite_bounded.prune_leaves_no_open_transaction";
        let dir = std::env::temp_dir().join(format!("verif-bounded-{}-{}", std::process::id(), "prune-txn"));
        let _ = std::fs::remove_dir_all(&dir); std::fs::create_dir_all(&dir).unwrap();
        let db = dir.join("db.sqlite");
        let scen = "g1 takes snapshot S ; prune_expired_snapshots(u64::MAX) removes it ; prune again (nothing to remove) ; snapshot T ; a write ; restart";
        {
            let s = MdkSqliteStorage::new_unencrypted(&db).expect("sqlite file");
            s.save_group(group(1, 1)).unwrap();
            s.create_group_snapshot(&gid(1), "S").unwrap();
            expect(label, scen, "first prune: snapshots removed", "SQLite", s.prune_expired_snapshots(u64::MAX).ok(), Some(1));
            expect(label, scen, "second prune: snapshots removed", "SQLite", s.prune_expired_snapshots(u64::MAX).ok(), Some(0));
            expect(label, scen, "create_group_snapshot after the prunes", "SQLite", s.create_group_snapshot(&gid(1), "T").is_ok(), true);
            let mut g = group(1, 1); g.name = "written after the prunes".into(); s.save_group(g).unwrap();
        }
        let s = MdkSqliteStorage::new_unencrypted(&db).expect("sqlite file, second session");
        expect(label, scen, "a later session sees what was written after the prunes", "SQLite", s.find_group_by_mls_group_id(&gid(1)).unwrap().map(|g| g.name), Some("written after the prunes".to_string()));
        expect(label, scen, "a later session lists the snapshots", "SQLite", s.list_group_snapshots(&gid(1)).unwrap().into_iter().map(|x| x.0).collect::<Vec<_>>(), vec!["T".to_string()]);
        let _ = std::fs::remove_dir_all(&dir);
    }
    // C20 / C09 / C06: a rollback that the back end REFUSES (its target snapshot is gone: released or TTL-pruned by another process on
    // the same file) leaves the manager's accounting as it was: nothing stored is dropped by it, and the snapshots taken before it still
    // count towards the retention limit, so after further commits the group holds exactly the `retention` most recent ones.
    // Scope (quick): both back ends, retention 2 and 3, every target epoch with at least one later snapshot; thorough adds retention 4.
    #[test]
    fn refused_rollback_keeps_the_snapshot_accounting() {
        use crate::epoch_snapshots::EpochSnapshotManager;
        let label = "sqlite_bounded.refused_rollback_keeps_the_snapshot_accounting";
        let thorough = std::env::var("VERIF_TIER").as_deref() == Ok("thorough");
        let cid = |n: u64| EventId::from_hex(&format!("{:064x}", n + 1)).unwrap();
        fn epochs_of<S: MdkStorageProvider>(s: &S) -> Vec<u64> {
            let mut v: Vec<u64> = s.list_group_snapshots(&gid(1)).unwrap().into_iter().map(|(name, _)| name.split('_').nth(2).unwrap().parse::<u64>().unwrap()).collect();
            v.sort(); v
        }
        fn run<S: MdkStorageProvider>(label: &str, back: &'static str, s: &S, retention: usize, target: u64, cid: &dyn Fn(u64) -> EventId) {
            s.save_group(group(1, 1)).unwrap();
            let manager = EpochSnapshotManager::new(retention);
            let n = retention as u64;
            let names: Vec<String> = (0..n).map(|e| manager.create_snapshot(s, &gid(1), e, &cid(e), 5000 + e).unwrap()).collect();
            s.release_group_snapshot(&gid(1), &names[target as usize]).unwrap();
            let scen = format!("retention {retention}; commits of epochs 0..={}; the snapshot of epoch {target} disappears from the store; rollback to epoch {target}", n - 1);
            expect(label, &scen, "rollback_to_epoch refused?", back, manager.rollback_to_epoch(s, &gid(1), target).is_err(), true);
            expect(label, &scen, "epochs of the stored snapshots after the refused rollback", back, epochs_of(s), (0..n).filter(|e| *e != target).collect::<Vec<_>>());
            for e in n..(2 * n) { manager.create_snapshot(s, &gid(1), e, &cid(e), 5000 + e).unwrap(); }
            expect(label, &format!("{scen}; then commits of epochs {n}..={}", 2 * n - 1), "epochs of the stored snapshots", back, epochs_of(s), (n..(2 * n)).collect::<Vec<_>>());
        }
        let retentions: Vec<usize> = if thorough { vec![2, 3, 4] } else { vec![2, 3] };
        for &retention in &retentions { for target in 0..(retention as u64 - 1) {
            let (m, s) = stores();
            run(label, "memory", &m, retention, target, &cid);
            run(label, "SQLite", &s, retention, target, &cid);
        }}
    }
    // C09 "re-taking a snapshot under an existing name replaces it": snapshot N of state A, change to B, snapshot N again, change to C,
    // roll back to N: the group must show state B on both back ends. Scope: one group, one name taken twice.
    #[test]
    fn retaking_a_snapshot_under_an_existing_name_replaces_it() {
        let label = "sqlite_bounded.retaking_a_snapshot_under_an_existing_name_replaces_it";
        let (m, s) = stores();
        for (name, st) in [("memory", &m as &dyn StoreOps), ("SQLite", &s as &dyn StoreOps)] {
            let mut g = group(1, 1); g.name = "state A".into(); st.put_group(g);
            let r1 = st.try_snap(1, "N");
            let mut g = group(1, 1); g.name = "state B".into(); g.epoch = 2; st.put_group(g);
            let r2 = st.try_snap(1, "N");
            let mut g = group(1, 1); g.name = "state C".into(); g.epoch = 3; st.put_group(g);
            let scen = "g1: snapshot N of state A, change to state B, snapshot N AGAIN, change to state C, rollback to N";
            expect(label, scen, "first create_group_snapshot(g1, N)", name, r1, true);
            expect(label, scen, "second create_group_snapshot(g1, N) (same name)", name, r2, true);
            st.try_rollback(1, "N");
            expect(label, scen, "group record after the rollback", name, st.get_group(1).map(|g| g.name), Some("state B".to_string()));
        }
    }
    // C02 / C18 / C07: a rollback of a group destroys no stored message, dedup record or welcome (it restores the group's MLS state,
    // record, relays and per-epoch secrets only). Scope: 2 groups with 3 messages / 2 dedup records each and one welcome, one rollback.
    #[test]
    fn rollback_destroys_no_stored_messages_or_records() {
        let label = "sqlite_bounded.rollback_destroys_no_stored_messages_or_records";
        let (m, s) = stores();
        for st in [&m as &dyn StoreOps, &s as &dyn StoreOps] {
            for g in 1..=2u8 { st.put_group(group(g, g)); }
            st.snap(1, "A");
        }
        for g in 1..=2u8 { for i in 0..3u8 {
            let x = msg(g, g * 10 + i, 10 + i as u64, 10, Some(1), MessageState::Processed, "c", Tags::new());
            m.save_message(x.clone()).unwrap(); s.save_message(x).unwrap();
        } for j in 0..2u8 {
            let p = pm(g * 40 + j, Some(g), Some(1), ProcessedMessageState::Processed);
            m.save_processed_message(p.clone()).unwrap(); s.save_processed_message(p).unwrap();
        } }
        let mut g1 = group(1, 1); g1.epoch = 2; g1.last_message_id = Some(eid(12)); g1.last_message_at = Some(Timestamp::from(12u64)); g1.last_message_processed_at = Some(Timestamp::from(10u64));
        m.save_group(g1.clone()).unwrap(); s.save_group(g1).unwrap();
        m.rollback_group_to_snapshot(&gid(1), "A").unwrap(); s.rollback_group_to_snapshot(&gid(1), "A").unwrap();
        let scen = "g1, g2 each hold 3 messages and 2 dedup records saved AFTER snapshot A of g1 was taken; g1 is rolled back to A";
        for g in 1..=2u8 {
            expect(label, scen, &format!("messages(g{g}).len() after the rollback of g1"), "SQLite", s.messages(&gid(g), None).unwrap().len(), 3);
            expect(label, scen, &format!("messages(g{g}).len() after the rollback of g1"), "memory", m.messages(&gid(g), None).unwrap().len(), 3);
            for j in 0..2u8 {
                expect(label, scen, &format!("dedup record {} of g{g} still there", g * 40 + j), "SQLite", s.find_processed_message_by_event_id(&eid(g * 40 + j)).unwrap().is_some(), true);
                expect(label, scen, &format!("dedup record {} of g{g} still there", g * 40 + j), "memory", m.find_processed_message_by_event_id(&eid(g * 40 + j)).unwrap().is_some(), true);
            }
        }
        expect(label, scen, "g1 record is the one of snapshot A", "SQLite", s.find_group_by_mls_group_id(&gid(1)).unwrap(), Some(group(1, 1)));
        expect(label, scen, "g1 record is the one of snapshot A", "memory", m.find_group_by_mls_group_id(&gid(1)).unwrap(), Some(group(1, 1)));
        expect(label, scen, "g1 is still found under its nostr id", "SQLite", s.find_group_by_nostr_group_id(&[1; 32]).unwrap().map(|g| g.mls_group_id), Some(gid(1)));
    }
    trait StoreOps {
        fn try_snap(&self, g: u8, name: &str) -> bool; fn try_rollback(&self, g: u8, name: &str) -> bool; fn put_group(&self, g: Group); fn put_secret(&self, s: GroupExporterSecret); fn put_relays(&self, g: u8, r: BTreeSet<RelayUrl>); fn snap(&self, g: u8, name: &str);
        fn get_group(&self, g: u8) -> Option<Group>; fn get_relays(&self, g: u8) -> BTreeSet<String>; fn get_secret(&self, g: u8, e: u64) -> Option<[u8; 32]>;
    }
    impl<T: MdkStorageProvider> StoreOps for T {
        fn try_snap(&self, g: u8, name: &str) -> bool { self.create_group_snapshot(&gid(g), name).is_ok() }
        fn try_rollback(&self, g: u8, name: &str) -> bool { self.rollback_group_to_snapshot(&gid(g), name).is_ok() }
        fn put_group(&self, g: Group) { self.save_group(g).unwrap() }
        fn put_secret(&self, s: GroupExporterSecret) { self.save_group_exporter_secret(s).unwrap() }
        fn put_relays(&self, g: u8, r: BTreeSet<RelayUrl>) { self.replace_group_relays(&gid(g), r).unwrap() }
        fn snap(&self, g: u8, name: &str) { self.create_group_snapshot(&gid(g), name).unwrap() }
        fn get_group(&self, g: u8) -> Option<Group> { self.find_group_by_mls_group_id(&gid(g)).unwrap() }
        fn get_relays(&self, g: u8) -> BTreeSet<String> { self.group_relays(&gid(g)).unwrap().into_iter().map(|r| r.relay_url.to_string()).collect() }
        fn get_secret(&self, g: u8, e: u64) -> Option<[u8; 32]> { self.get_group_exporter_secret(&gid(g), e).unwrap().map(|s| *s.secret.as_ref()) }
    }

    // C16 / C07 / C03: records are returned as stored, keyed as documented. Scope: welcomes in every state, dedup records, secrets per (group, epoch).
    #[test]
    fn welcomes_dedup_records_and_secrets_round_trip() {
        let label = "sqlite_bounded.welcomes_dedup_records_and_secrets_round_trip";
        let (m, s) = stores();
        for g in 1..=2u8 { m.save_group(group(g, g)).unwrap(); s.save_group(group(g, g)).unwrap(); }
        let w = |id: u8, st: WelcomeState| Welcome {
            id: eid(id), event: UnsignedEvent { id: Some(eid(id)), pubkey: pk(), created_at: Timestamp::from(10u64), kind: Kind::MlsWelcome, tags: Tags::new(), content: "w".into() },
            mls_group_id: gid(1), nostr_group_id: [1; 32], group_name: format!("n{id}"), group_description: format!("d{id}"), group_image_hash: Some([id; 32]),
            group_image_key: Some(Secret::new([id.wrapping_add(1); 32])), group_image_nonce: Some(Secret::new([id.wrapping_add(2); 12])), group_admin_pubkeys: BTreeSet::from([pk()]),
            group_relays: BTreeSet::from([RelayUrl::parse("wss://r.example").unwrap()]), welcomer: pk(), member_count: 3, state: st, wrapper_event_id: eid(id.wrapping_add(100)),
        };
        for (i, st) in [WelcomeState::Pending, WelcomeState::Accepted, WelcomeState::Declined, WelcomeState::Ignored].iter().enumerate() {
            let x = w(i as u8 + 1, *st);
            m.save_welcome(x.clone()).unwrap(); s.save_welcome(x.clone()).unwrap();
            expect(label, &format!("welcome {} saved in state {st:?}", i + 1), "find_welcome_by_event_id", "SQLite", s.find_welcome_by_event_id(&x.id).unwrap(), Some(x.clone()));
            expect(label, &format!("welcome {} saved in state {st:?}", i + 1), "find_welcome_by_event_id", "memory", m.find_welcome_by_event_id(&x.id).unwrap(), Some(x));
        }
        let pend = |v: Vec<Welcome>| v.into_iter().map(|x| x.id).collect::<BTreeSet<_>>();
        expect(label, "four welcomes, one in each state", "pending_welcomes lists exactly the Pending one", "SQLite", pend(s.pending_welcomes(None).unwrap()), BTreeSet::from([eid(1)]));
        expect(label, "four welcomes, one in each state", "pending_welcomes lists exactly the Pending one", "memory", pend(m.pending_welcomes(None).unwrap()), BTreeSet::from([eid(1)]));
        // accepting = saving again in another state
        let acc = w(1, WelcomeState::Accepted); m.save_welcome(acc.clone()).unwrap(); s.save_welcome(acc.clone()).unwrap();
        expect(label, "the pending welcome saved again as Accepted", "find_welcome_by_event_id", "SQLite", s.find_welcome_by_event_id(&eid(1)).unwrap(), Some(acc));
        expect(label, "the pending welcome saved again as Accepted", "pending_welcomes", "SQLite", pend(s.pending_welcomes(None).unwrap()), BTreeSet::new());
        for st in [ProcessedWelcomeState::Processed, ProcessedWelcomeState::Failed] {
            let p = ProcessedWelcome { wrapper_event_id: eid(9), welcome_event_id: Some(eid(1)), processed_at: Timestamp::from(3u64), state: st, failure_reason: Some("r".into()) };
            m.save_processed_welcome(p.clone()).unwrap(); s.save_processed_welcome(p.clone()).unwrap();
            expect(label, &format!("processed-welcome record saved in state {st:?}"), "find_processed_welcome_by_event_id", "SQLite", s.find_processed_welcome_by_event_id(&eid(9)).unwrap(), Some(p.clone()));
            expect(label, &format!("processed-welcome record saved in state {st:?}"), "find_processed_welcome_by_event_id", "memory", m.find_processed_welcome_by_event_id(&eid(9)).unwrap(), Some(p));
        }
        for st in [ProcessedMessageState::Created, ProcessedMessageState::Processed, ProcessedMessageState::ProcessedCommit, ProcessedMessageState::Failed, ProcessedMessageState::Retryable, ProcessedMessageState::EpochInvalidated] {
            for (g, ep) in [(Some(1u8), Some(4u64)), (None, None)] {
                let p = pm(7, g, ep, st);
                m.save_processed_message(p.clone()).unwrap(); s.save_processed_message(p.clone()).unwrap();
                expect(label, &format!("dedup record saved as {st:?} group {g:?} epoch {ep:?}"), "find_processed_message_by_event_id", "SQLite", s.find_processed_message_by_event_id(&eid(7)).unwrap(), Some(p.clone()));
                expect(label, &format!("dedup record saved as {st:?} group {g:?} epoch {ep:?}"), "find_processed_message_by_event_id", "memory", m.find_processed_message_by_event_id(&eid(7)).unwrap(), Some(p));
            }
        }
        for (g, e, v) in [(1u8, 1u64, 1u8), (1, 2, 2), (2, 1, 3)] {
            let x = GroupExporterSecret { mls_group_id: gid(g), epoch: e, secret: Secret::new([v; 32]) };
            m.save_group_exporter_secret(x.clone()).unwrap(); s.save_group_exporter_secret(x).unwrap();
        }
        for (g, e, want) in [(1u8, 1u64, Some([1u8; 32])), (1, 2, Some([2; 32])), (2, 1, Some([3; 32])), (2, 2, None), (1, 3, None)] {
            expect(label, "secrets saved for (g1,1) (g1,2) (g2,1)", &format!("get_group_exporter_secret(g{g}, {e})"), "SQLite", s.get_group_exporter_secret(&gid(g), e).unwrap().map(|x| *x.secret.as_ref()), want);
            expect(label, "secrets saved for (g1,1) (g1,2) (g2,1)", &format!("get_group_exporter_secret(g{g}, {e})"), "memory", m.get_group_exporter_secret(&gid(g), e).unwrap().map(|x| *x.secret.as_ref()), want);
        }
    }
}
