// Design-phase replays of the five defects listed in DESIGN.md section 5.
// NOT framework code: kept as the record of how each defect was confirmed against
// the real crates. Appended to a scratch copy of crates/mdk-core/src/lib.rs and run with
//   cargo test --offline -p mdk-core --lib verif_replay -- --nocapture --test-threads 1
// on the pinned tree (6826ab1). Every test ASSERTS THE DEFECT (passes while the defect exists).
// Observed output on 2026-10-02:
//   F1 result: panicked=true            (crates/mdk-memory-storage/src/groups.rs:139:27)
//   F2 after: pubkey_is_bob=true content="bob forged" verify_id_ok=false
//   F4 alice result: Ok("Unprocessable {..}")   epochs a=2 b=2 c=2 a==b:false c==b:true
//   F5 members before=3 after=3 bob_still_member=false dave_added=true carol=true
//   F3 state before=Active after=Pending name_after="evil" nostr_id_changed=true;
//      bob processes alice's message: Err("group not found")

#[cfg(test)]
mod verif_replay {
    use crate::messages::MessageProcessingResult;
    use crate::test_util::*;
    use crate::tests::create_test_mdk;
    use mdk_storage_traits::groups::{GroupStorage, Pagination};
    use nostr::{EventBuilder, Keys, Kind, Timestamp, UnsignedEvent, Tags};

    fn setup3() -> (crate::MDK<mdk_memory_storage::MdkMemoryStorage>, crate::MDK<mdk_memory_storage::MdkMemoryStorage>, crate::MDK<mdk_memory_storage::MdkMemoryStorage>, Keys, Keys, Keys, crate::GroupId) {
        let (ak, bk, ck) = (Keys::generate(), Keys::generate(), Keys::generate());
        let (a, b, c) = (create_test_mdk(), create_test_mdk(), create_test_mdk());
        let kb = create_key_package_event(&b, &bk);
        let kc = create_key_package_event(&c, &ck);
        let admins = vec![ak.public_key(), bk.public_key()];
        let res = a.create_group(&ak.public_key(), vec![kb, kc], create_nostr_group_config_data(admins)).unwrap();
        let gid = res.group.mls_group_id.clone();
        a.merge_pending_commit(&gid).unwrap();
        let wb = b.process_welcome(&nostr::EventId::all_zeros(), &res.welcome_rumors[0]).unwrap();
        b.accept_welcome(&wb).unwrap();
        let wc = c.process_welcome(&nostr::EventId::all_zeros(), &res.welcome_rumors[1]).unwrap();
        c.accept_welcome(&wc).unwrap();
        (a, b, c, ak, bk, ck, gid)
    }

    #[test]
    fn f1_pagination_overflow() {
        let (a, _b, _c, ak, _bk, _ck, gid) = setup3();
        let rumor = create_test_rumor(&ak, "hello");
        a.create_message(&gid, rumor).unwrap();
        let r = std::panic::catch_unwind(std::panic::AssertUnwindSafe(|| {
            a.storage().messages(&gid, Some(Pagination::new(Some(1), Some(usize::MAX))))
        }));
        println!("F1 result: panicked={}", r.is_err());
        assert!(r.is_err(), "expected panic (defect) on current tree");
    }

    #[test]
    fn f2_preset_rumor_id_replaces_other_authors_message() {
        let (a, b, c, ak, bk, _ck, gid) = setup3();
        // Alice sends M1
        let mut m1 = create_test_rumor(&ak, "alice original");
        let m1_id = m1.id();
        let e1 = a.create_message(&gid, m1).unwrap();
        assert!(matches!(c.process_message(&e1).unwrap(), MessageProcessingResult::ApplicationMessage(_)));
        let before = c.get_message(&gid, &m1_id).unwrap().unwrap();
        assert_eq!(before.pubkey, ak.public_key());
        // Bob sends a rumor with Alice's message id preset
        let mut forged = UnsignedEvent::new(bk.public_key(), Timestamp::now(), Kind::Custom(9), Tags::new(), "bob forged");
        forged.id = Some(m1_id);
        let e2 = b.create_message(&gid, forged).unwrap();
        let r = c.process_message(&e2);
        println!("F2 process result ok={}", r.is_ok());
        let after = c.get_message(&gid, &m1_id).unwrap().unwrap();
        println!("F2 after: pubkey_is_bob={} content={:?} verify_id_ok={}", after.pubkey == bk.public_key(), after.content, after.event.verify_id().is_ok());
        assert_eq!(after.content, "bob forged", "expected replacement (defect) on current tree");
    }

    #[test]
    fn f4_own_immediate_merge_has_no_snapshot() {
        let (a, b, c, _ak, _bk, _ck, gid) = setup3();
        // Bob commits first (earlier timestamp), Alice later on the same epoch
        let rb = b.self_update(&gid).unwrap();
        std::thread::sleep(std::time::Duration::from_millis(2100));
        let ra = a.self_update(&gid).unwrap();
        assert!(rb.evolution_event.created_at < ra.evolution_event.created_at);
        // Alice applies her own commit immediately after publishing
        a.merge_pending_commit(&gid).unwrap();
        // Bob applies his own on echo... (he merges too)
        b.merge_pending_commit(&gid).unwrap();
        // Carol (bystander) sees Alice's then Bob's: rolls back to Bob's (MIP-03 winner)
        let _ = c.process_message(&ra.evolution_event);
        let _ = c.process_message(&rb.evolution_event);
        // Alice now receives Bob's better commit
        let r = a.process_message(&rb.evolution_event);
        println!("F4 alice result: {:?}", r.as_ref().map(|x| format!("{:?}", x)));
        let ga = a.load_mls_group(&gid).unwrap().unwrap();
        let gb = b.load_mls_group(&gid).unwrap().unwrap();
        let gc = c.load_mls_group(&gid).unwrap().unwrap();
        let (ea, eb, ec) = (ga.epoch_authenticator().as_slice().to_vec(), gb.epoch_authenticator().as_slice().to_vec(), gc.epoch_authenticator().as_slice().to_vec());
        println!("F4 epochs a={} b={} c={} a==b:{} c==b:{}", ga.epoch().as_u64(), gb.epoch().as_u64(), gc.epoch().as_u64(), ea == eb, ec == eb);
        assert!(ec == eb, "bystander should converge to Bob's commit");
        assert!(ea != eb, "expected Alice to stay diverged (defect) on current tree");
    }

    #[test]
    fn f5_admin_add_sweeps_foreign_remove_proposal() {
        use openmls::prelude::LeafNodeIndex;
        use tls_codec::Serialize as _;
        let (a, _b, c, _ak, bk, ck, gid) = setup3();
        // Carol (non-admin) proposes to remove Bob, directly with the MLS library
        let mut gc = c.load_mls_group(&gid).unwrap().unwrap();
        let signer = c.load_mls_signer(&gc).unwrap();
        let bob_idx = gc.members().find(|m| c.pubkey_for_member(m).unwrap() == bk.public_key()).unwrap().index;
        let _ = LeafNodeIndex::new(0);
        let (msg, _ref) = gc.propose_remove_member(&c.provider, &signer, bob_idx).unwrap();
        let ev = c.build_message_event(&gid, msg.tls_serialize_detached().unwrap()).unwrap();
        // Alice (admin) receives the proposal: stored as pending
        let r = a.process_message(&ev).unwrap();
        println!("F5 proposal result: {:?}", r);
        let before = a.get_members(&gid).unwrap();
        // Alice adds Dave - names only Dave
        let dk = Keys::generate();
        let d = create_test_mdk();
        let kd = create_key_package_event(&d, &dk);
        a.add_members(&gid, &[kd]).unwrap();
        a.merge_pending_commit(&gid).unwrap();
        let after = a.get_members(&gid).unwrap();
        println!("F5 members before={} after={} bob_still_member={} dave_added={} carol={}", before.len(), after.len(), after.contains(&bk.public_key()), after.contains(&dk.public_key()), after.contains(&ck.public_key()));
        assert!(!after.contains(&bk.public_key()), "expected Bob swept out (defect) on current tree");
    }

    #[test]
    fn f3_welcome_for_held_group_id_disturbs_active_group() {
        use openmls::prelude::*;
        use tls_codec::Serialize as _;
        use crate::extension::NostrGroupDataExtension;
        let (a, b, _c, ak, bk, _ck, gid) = setup3();
        let before = b.get_group(&gid).unwrap().unwrap();
        assert_eq!(before.state, mdk_storage_traits::groups::types::GroupState::Active);
        // Bob publishes a fresh key package (as every client does)
        let kb2 = create_key_package_event(&b, &bk);
        // Mallory, an outsider, builds her own MLS group re-using Bob's MLS group id
        let mk = Keys::generate();
        let m = create_test_mdk();
        let (credential, signer) = m.generate_credential_with_key(&mk.public_key()).unwrap();
        let relays = vec![nostr::RelayUrl::parse("wss://evil.relay").unwrap()];
        let gd = NostrGroupDataExtension::new("evil", "evil", [mk.public_key()], relays.clone(), None, None, None, None);
        let ext = Extension::Unknown(gd.extension_type(), UnknownExtension(gd.as_raw().tls_serialize_detached().unwrap()));
        let exts = Extensions::from_vec(vec![ext, m.required_capabilities_extension()]).unwrap();
        let cfg = MlsGroupCreateConfig::builder().ciphersuite(m.ciphersuite).use_ratchet_tree_extension(true)
            .capabilities(m.capabilities()).with_group_context_extensions(exts).build();
        let mut rogue = MlsGroup::new_with_group_id(&m.provider, &signer, &cfg, openmls::group::GroupId::from_slice(gid.as_slice()), credential).unwrap();
        let kp = m.parse_key_package(&kb2).unwrap();
        let (_c, welcome_out, _gi) = rogue.add_members(&m.provider, &signer, &[kp]).unwrap();
        rogue.merge_pending_commit(&m.provider).unwrap();
        let rumors = m.build_welcome_rumors_for_key_packages(&rogue, welcome_out.tls_serialize_detached().unwrap(), vec![kb2], &relays).unwrap().unwrap();
        // Bob merely *receives* the invitation (no consent given)
        let r = b.process_welcome(&nostr::EventId::from_byte_array([9u8; 32]), &rumors[0]);
        println!("F3 process_welcome ok={}", r.is_ok());
        let after = b.get_group(&gid).unwrap().unwrap();
        println!("F3 state before={:?} after={:?} name_after={:?} nostr_id_changed={}", before.state, after.state, after.name, before.nostr_group_id != after.nostr_group_id);
        // Alice sends a message in the real group; can Bob still process it?
        let e = a.create_message(&gid, create_test_rumor(&ak, "hi bob")).unwrap();
        let pr = b.process_message(&e);
        println!("F3 bob processes alice's message: {:?}", pr.as_ref().map(|x| format!("{:?}", x)).map_err(|e| e.to_string()));
        assert!(after.state != before.state || pr.is_err(), "expected disturbance (defect) on current tree");
    }
}
