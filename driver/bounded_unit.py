"""Bounded engine: a small-scope exhaustive check of functions that no contract can reach (the SQL text of the SQLite
back end), run on the REAL code: the harness file of the unit is appended to a crate of a scratch copy of /repo and
executed with `cargo test`. Every test of the harness is one obligation, labelled `bounded` in the evidence and never
counted as proved. A failing scenario is a concrete input on the real code: its text is the counterexample."""
import fcntl
import hashlib
import os
import re
import shutil
import subprocess
import time

ROOT = os.path.dirname(os.path.dirname(os.path.abspath(__file__)))
SCRATCH_BASE = "/var/tmp/verif-scratch"


def sh(cmd, cwd=None, timeout=None, env=None):
    t0 = time.time()
    try:
        p = subprocess.run(cmd, cwd=cwd, timeout=timeout, env=env, stdout=subprocess.PIPE, stderr=subprocess.STDOUT, text=True)
        return p.returncode, p.stdout, time.time() - t0
    except subprocess.TimeoutExpired as e:
        out = e.stdout.decode() if isinstance(e.stdout, bytes) else (e.stdout or "")
        return 124, out + "\nTIMEOUT", time.time() - t0


def run(u, repo, tier, build):
    name = u["name"]
    res = {"unit": name, "engine": u.get("engine_label", "cargo test (bounded; real code executed)"), "status": "ok", "obligations": [], "failures": [],
           "notes": [], "wall_s": 0.0, "extracts": [], "bounded": []}
    t0 = time.time()
    os.makedirs(SCRATCH_BASE, exist_ok=True)
    os.makedirs(build, exist_ok=True)
    # ONE scratch path per build directory, shared by all bounded units (they run one at a time under the lock): cargo keys
    # the workspace crates' artifacts by name only, so two scratch copies sharing one target directory would see each
    # other's builds as fresh (a stale, false verdict). One copy + one target keeps the mtime fingerprints coherent.
    scratch = os.path.join(SCRATCH_BASE, hashlib.sha1(os.path.abspath(build).encode()).hexdigest()[:10], "bounded-work")
    target = os.path.join(build, "bounded-target")
    lock = open(os.path.join(build, "bounded.lock"), "w")
    fcntl.flock(lock, fcntl.LOCK_EX)
    try:
        os.makedirs(scratch, exist_ok=True)
        # content-based sync WITHOUT preserving mtimes: a changed file gets the current time, so cargo (mtime fingerprints)
        # rebuilds exactly what differs from the previous run -- also when the change is a revert to an older file
        rc, out, _ = sh(["rsync", "-rlpgoD", "--checksum", "--delete", "--exclude", "/target", "--exclude", ".git", "--exclude", "/trees", repo.rstrip("/") + "/", scratch + "/"])
        if rc != 0:
            res["status"] = "undecided"; res["notes"].append("rsync failed: " + out[-300:]); return res
        harness = os.path.join(ROOT, u["harness"])
        with open(os.path.join(scratch, u["append_to"]), "a") as fh:
            fh.write("\n" + open(harness).read())
        env = dict(os.environ, CARGO_NET_OFFLINE="true", CARGO_TARGET_DIR=target, VERIF_TIER=tier)   # the harness widens its scope for thorough
        cmd = ["cargo", "test", "--offline", "-p", u["package"]] + u.get("cargo_args", []) + ["--lib", u["filter"], "--", "--test-threads", "8"]
        res["checker_cmd"] = f"(scratch copy of /repo + {u['harness']} appended to {u['append_to']}) " + " ".join(cmd)
        rc, out, w = sh(cmd, cwd=scratch, env=env, timeout=3000)
        open(os.path.join(build, "bounded-" + name + ".log"), "w").write(out)
        verdict = dict(re.findall(r"^test " + re.escape(u["filter"]) + r"::(\w+) \.\.\. (ok|FAILED)", out, re.M))
        cex = {}
        for m in re.finditer(r"BOUNDED-COUNTEREXAMPLE (\S+?): (.*)", out):
            cex.setdefault(m.group(1), m.group(2).strip())
        if not verdict:
            res["status"] = "undecided"
            errs = [l for l in out.splitlines() if l.startswith("error")]
            res["notes"].append("the bounded harness did not build / run on this tree (it uses the public storage-trait API): " + " | ".join(errs)[:500])
            return res
        for t in u["tests"]:
            ob = {"label": t["label"], "props": t["props"], "kind": "bounded (NOT a proof): " + t["bound"], "line": 0, "text": t["clause"], "status": "discharged", "seconds": None}
            v = verdict.get(t["name"])
            res["bounded"].append({"label": t["label"], "bound": t["bound"]})
            if v == "ok":
                pass
            elif v == "FAILED":
                ob["status"] = "failed"
                text = cex.get(t["label"], "(the test failed without a BOUNDED-COUNTEREXAMPLE line; see build/bounded-%s.log)" % name)
                rp = os.path.join(ROOT, "replays", f"{t['label']}.counterexample.txt")
                os.makedirs(os.path.dirname(rp), exist_ok=True)
                open(rp, "w").write(f"# failing scenario found by the bounded check {t['label']} on the real code\n# re-run: append {u['harness']} to {u['append_to']} of a copy of the tree and run\n#   {' '.join(cmd[:cmd.index('--')])}::{t['name']}\n\n{text}\n")
                res["failures"].append({"label": t["label"], "site": name + "." + t["name"], "message": text[:1500], "line": 0, "replay_file": rp, "counterexample": text[:1500], "replay_confirmed": True})
            else:
                res["status"] = "undecided"
                res["notes"].append(f"no verdict for bounded test {t['name']}")
            res["obligations"].append(ob)
        res["extracts"].append({"id": name, "file": u.get("covers_files", ""), "item": u.get("covers_items", ""), "kind": "bounded: real code executed, no contract", "src_lines": [0, 0], "src_sha256": "", "rewrites": {}})
        return res
    finally:
        fcntl.flock(lock, fcntl.LOCK_UN)
        res["wall_s"] = time.time() - t0
