#!/usr/bin/env python3
"""Driver for the contract-based checks of /verif (DESIGN.md §2).

  bin/check <Cxx> [--tier quick|thorough] [--repo /repo] [--keep]
  bin/check --unit <unit> [...]            # run one unit, print its result (debugging)
  bin/check --replay <file>                # print a replay file (obligation + verifier output)

Exit status: 0 all obligations of the property discharged (known findings excepted),
             1 at least one obligation that is not a recorded known finding fails  -> VIOLATION line,
             2 undecided (lost anchor, construct outside the subset, rlimit, vacuous unit, tool crash).
"""
import argparse
import concurrent.futures as cf
import glob
import hashlib
import json
import os
import re
import shutil
import subprocess
import sys
import time

ROOT = os.path.dirname(os.path.dirname(os.path.abspath(__file__)))
VX = os.path.join(ROOT, "tools", "vx", "target", "release", "vx")
BUILD = os.environ.get("VX_BUILD_DIR") or os.path.join(ROOT, "build")   # VX_BUILD_DIR: private build dir (tools/mutscan.py runs units in parallel)
EVID = os.path.join(ROOT, "evidence")
REPLAYS = os.path.join(ROOT, "replays")
KNOWN = os.path.join(ROOT, "known_findings.txt")

VERIF_FAIL_PATTERNS = [
    "postcondition not satisfied", "precondition not satisfied", "assertion failed",
    "possible arithmetic underflow/overflow", "possible division by zero", "invariant not satisfied",
    "loop invariant not", "decreases not satisfied", "could not prove termination",
    "possible bit shift underflow/overflow", "unable to prove assertion safety condition",
    "assertion not satisfied", "failed to prove", "cannot show", "may fail to meet", "not proved", "unable to prove",
]
UNDECIDED_PATTERNS = ["rlimit", "Resource limit", "timed out", "solver"]


def sh(cmd, cwd=None, timeout=None, env=None):
    t0 = time.time()
    try:
        p = subprocess.run(cmd, cwd=cwd, timeout=timeout, env=env, stdout=subprocess.PIPE, stderr=subprocess.PIPE, text=True)
        return p.returncode, p.stdout, p.stderr, time.time() - t0
    except subprocess.TimeoutExpired as e:
        return 124, (e.stdout or b"").decode() if isinstance(e.stdout, bytes) else (e.stdout or ""), "TIMEOUT", time.time() - t0


def ensure_vx():
    if os.path.exists(VX):
        src = os.path.join(ROOT, "tools", "vx", "src", "main.rs")
        if os.path.getmtime(src) <= os.path.getmtime(VX):
            return
    env = dict(os.environ, CARGO_NET_OFFLINE="true")
    rc, out, err, _ = sh(["cargo", "build", "--release", "--offline"], cwd=os.path.join(ROOT, "tools", "vx"), env=env)
    if rc != 0:
        print("UNDECIDED: cannot build tools/vx\n" + err[-2000:])
        sys.exit(2)


def load_units():
    units = {}
    for p in sorted(glob.glob(os.path.join(ROOT, "units", "*", "unit.json"))):
        u = json.load(open(p))
        u["dir"] = os.path.dirname(p)
        u["name"] = os.path.basename(u["dir"])
        units[u["name"]] = u
    return units


def load_known():
    """known_findings.txt lines:
       finding: property=<id> obligation=<label> site=<extract id or '*'> <free text>
       fixed:   property=<id> <commit> <free text>            (suppresses nothing)
    """
    out = []
    if not os.path.exists(KNOWN):
        return out
    for l in open(KNOWN):
        l = l.strip()
        if not l.startswith("finding:"):
            continue
        kv = dict(re.findall(r"(\w+)=(\S+)", l))
        out.append({"property": kv.get("property"), "obligation": kv.get("obligation"), "site": kv.get("site", "*"), "line": l})
    return out


def parse_diags(stderr):
    diags = []
    raw = []
    for l in stderr.splitlines():
        l = l.strip()
        if not l.startswith("{"):
            if l:
                raw.append(l)
            continue
        try:
            d = json.loads(l)
        except Exception:
            raw.append(l)
            continue
        if d.get("level") not in ("error", "warning"):
            continue
        diags.append(d)
    return diags, raw


def classify_diag(d):
    """-> 'verif' (a proof obligation failed), 'undecided' (rlimit...), 'summary', 'compile'"""
    msg = d.get("message", "")
    if msg.startswith("aborting due to") or "previous error" in msg:
        return "summary"
    if any(p in msg for p in UNDECIDED_PATTERNS):
        return "undecided"
    if d.get("level") == "warning":
        return "warning"
    if d.get("code"):
        return "compile"  # rustc error code (type / trait / borrow error): not a proof obligation
    if any(p in msg for p in VERIF_FAIL_PATTERNS):
        return "verif"
    return "compile"


def run_verus(rs, workdir, tag):
    cmd = ["verus", "--edition", "2024", os.path.basename(rs), "--output-json", "--time", "--multiple-errors", "200", "--error-format=json"]
    extra = os.environ.get("VX_VERUS_EXTRA")
    if extra:
        cmd += extra.split()
    rc, out, err, wall = sh(cmd, cwd=workdir, timeout=int(os.environ.get("VX_VERUS_TIMEOUT", "900")))
    open(os.path.join(workdir, tag + ".stdout.json"), "w").write(out)
    open(os.path.join(workdir, tag + ".stderr.json"), "w").write(err)
    try:
        j = json.loads(out[out.index("{"):]) if "{" in out else {}
    except Exception:
        j = {}
    diags, raw = parse_diags(err)
    return {"rc": rc, "json": j, "diags": diags, "raw": raw, "wall": wall, "cmd": " ".join(cmd)}


def fn_breakdown(j):
    res = {}
    try:
        for m in j["times-ms"]["smt"]["smt-run-module-times"]:
            for f in m.get("function-breakdown", []):
                res[f["function"]] = {"ms": f.get("time-micros", 0) / 1000.0, "rlimit": f.get("rlimit"), "success": f.get("success"), "mode": f.get("mode:")}
    except Exception:
        pass
    return res


def run_unit_verus(u, repo, tier="quick"):
    name = u["name"]
    wd = os.path.join(BUILD, name)
    shutil.rmtree(wd, ignore_errors=True)
    os.makedirs(wd)
    tmpl = os.path.join(u["dir"], "unit.rs.tmpl")
    res = {"unit": name, "engine": "verus/z3", "status": "ok", "obligations": [], "failures": [], "notes": [], "wall_s": 0.0}
    t0 = time.time()
    gens = {}
    for mode in ("main", "probe"):
        rs = os.path.join(wd, f"{name}_{mode}.rs")
        mp = os.path.join(wd, f"{name}_{mode}.map.json")
        cmd = [VX, "gen", "--repo", repo, "--template", tmpl, "--out", rs, "--map", mp] + (["--probes"] if mode == "probe" else [])
        # thorough tier: the vacuity pass also probes after every statement of every NESTED block (audit of shim contracts that
        # contradict each other only inside a branch); such a probe that does not fail is a NOTE, not a verdict, because a
        # branch may be legitimately unreachable under the function's precondition
        rc, out, err, _ = sh(cmd, env=dict(os.environ, VX_DEEP_PROBES="1" if (mode == "probe" and tier == "thorough") else "0"))
        if rc != 0:
            res["status"] = "undecided"
            res["notes"].append(f"extraction failed ({mode}): {err.strip() or out.strip()}")
            res["wall_s"] = time.time() - t0
            return res
        gens[mode] = (rs, json.load(open(mp)))
    with cf.ThreadPoolExecutor(2) as ex:
        fm = ex.submit(run_verus, gens["main"][0], wd, "main")
        fp = ex.submit(run_verus, gens["probe"][0], wd, "probe")
        vm, vp = fm.result(), fp.result()
    mp = gens["main"][1]
    res["checker_cmd"] = f"vx gen --repo {repo} --template units/{name}/unit.rs.tmpl && " + vm["cmd"]
    res["extracts"] = mp["extracts"]
    res["verus_summary"] = vm["json"].get("verification-results", {})
    res["fn_times"] = fn_breakdown(vm["json"])
    res["smt_ms"] = (vm["json"].get("times-ms", {}).get("smt", {}) or {}).get("total")
    src_lines = open(gens["main"][0]).read().splitlines()

    # obligations: labels + implicit safety obligation per extracted function + lemmas
    labels = mp["labels"]
    obligations = {}
    def callsite_exercised(l):
        """a call-site precondition label counts as an obligation of this unit only if one of the
        extracted bodies actually calls the shim that carries it"""
        if l["kind"] != "callsite-requires":
            return True
        fn = None
        for k in range(l["line"] - 1, max(l["line"] - 40, 0), -1):
            m = re.search(r"\bfn\s+([A-Za-z0-9_]+)", src_lines[k - 1] if k - 1 < len(src_lines) else "")
            if m:
                fn = m.group(1)
                break
        if not fn:
            return True
        pat = re.compile(r"[.:\s]" + re.escape(fn) + r"\s*(::<[^>]*>)?\(")
        for e in mp["extracts"]:
            if e["kind"] in ("whole-fn", "fragment") and e.get("gen_lines") and not e.get("sigonly"):
                a, b = e["gen_lines"]
                body = "\n".join(src_lines[a:b])
                if pat.search(body):
                    return True
        return False
    labels = [l for l in labels if callsite_exercised(l)]
    for l in labels:
        obligations[l["label"]] = {"label": l["label"], "props": [p for p in re.split(r"[,\s]+", l["props"]) if p], "kind": l["kind"], "line": l["line"], "text": l["text"], "status": "discharged"}
    fn_ranges = []
    for e in mp["extracts"]:
        if e["kind"] in ("whole-fn", "fragment") and e.get("gen_lines") and not e.get("sigonly"):
            lab = e["id"] + ".safety"
            props = [p for p in re.split(r"[,\s]+", e.get("props") or "") if p]
            obligations[lab] = {"label": lab, "props": props, "kind": "implicit: no overflow / out-of-bounds / failed unwrap / unmet callee precondition in the extracted body", "line": e["gen_lines"][0], "text": e["item"] + (" :: " + e["frag"] if e.get("frag") else ""), "status": "discharged"}
            fn_ranges.append((e["gen_lines"][0], e["gen_lines"][1], e["id"]))
    lemma_lines = sorted((l["line"], l["label"], l["props"]) for l in mp.get("lemmas", []))
    for (ln, lab, props) in lemma_lines:
        obligations[lab] = {"label": lab, "props": [p for p in re.split(r"[,\s]+", props) if p], "kind": "lemma", "line": ln, "text": src_lines[ln].strip() if ln < len(src_lines) else "", "status": "discharged"}
    label_by_line = {l["line"]: l["label"] for l in labels}

    def site_of(line):
        for (a, b, i) in fn_ranges:
            if a <= line <= b:
                return i
        return None

    def lemma_of(line):
        # the lemma marker directly precedes a proof fn; attribute lines until the next marker / extract
        cand = None
        for (ln, lab, _p) in lemma_lines:
            if ln <= line:
                cand = (ln, lab)
        if cand is None:
            return None
        # end of the lemma: first line == "}" at column 0 after marker
        for k in range(cand[0], len(src_lines)):
            if src_lines[k].startswith("}"):
                return cand[1] if line <= k + 1 else None
        return cand[1]

    # ---- main pass diagnostics
    compile_errs, undecided = [], []
    # Verus stops before verification on any rustc / VIR error: if it reports verification results
    # without a VIR error, every remaining `error` diagnostic is a failed proof obligation
    vr = vm["json"].get("verification-results") or {}
    verification_phase = bool(vr) and not vr.get("encountered-vir-error", False) and not any(d.get("code") for d in vm["diags"] if d.get("level") == "error")
    for d in vm["diags"]:
        k = classify_diag(d)
        if k == "compile" and verification_phase and d.get("level") == "error":
            k = "verif"
        if k in ("summary", "warning"):
            continue
        if k == "compile":
            compile_errs.append(d)
            continue
        if k == "undecided":
            undecided.append(d)
            continue
        spans = d.get("spans", [])
        hit = set()
        site = None
        prim_line = None
        for s in spans:
            # a clause sits on one line; body spans ("at the end of the function body") cover many
            if s["line_start"] in label_by_line and s["line_end"] - s["line_start"] <= 1:
                hit.add(label_by_line[s["line_start"]])
            if s.get("is_primary"):
                prim_line = s["line_start"]
        for s in spans:
            st = site_of(s["line_start"])
            if st:
                site = st
        if not hit:
            if site:
                hit.add(site + ".safety")
            else:
                lm = lemma_of(prim_line or 0)
                hit.add(lm if lm else f"{name}.prelude")
        for lab in hit:
            f = {"label": lab, "site": site or "-", "message": d.get("message"), "rendered": d.get("rendered", "")[:3000], "line": prim_line}
            res["failures"].append(f)
            if lab in obligations:
                obligations[lab]["status"] = "failed"
            else:
                obligations[lab] = {"label": lab, "props": u.get("properties", []), "kind": "prelude", "line": prim_line, "text": "", "status": "failed"}
    if compile_errs:
        res["status"] = "undecided"
        res["hard_undecided"] = True
        res["notes"].append("Verus rejected the generated file (construct outside the supported subset, or a type the prelude does not model): " + "; ".join(d.get("message", "")[:300] for d in compile_errs[:5]))
    if undecided:
        res["status"] = "undecided"
        res["notes"].append("solver gave up: " + "; ".join(d.get("message", "")[:200] for d in undecided[:5]))
    if vm["rc"] not in (0, 1) or (not vm["json"] and not vm["diags"]):
        res["status"] = "undecided"
        res["notes"].append(f"verus crashed rc={vm['rc']}: " + " | ".join(vm["raw"][-5:]))
    vs = res["verus_summary"]
    if res["status"] == "ok" and not res["failures"] and not vs.get("success", False):
        res["status"] = "undecided"
        res["notes"].append("verus reported no success and no diagnostic")

    # ---- vacuity pass: every probe must FAIL
    pm = gens["probe"][1]
    probe_lines = {p["line"]: p for p in pm["probes"]}
    failed_probe_lines = set()
    pcompile = []
    vrp = vp["json"].get("verification-results") or {}
    probe_verification_phase = bool(vrp) and not vrp.get("encountered-vir-error", False) and not any(d.get("code") for d in vp["diags"] if d.get("level") == "error")
    for d in vp["diags"]:
        k = classify_diag(d)
        if k == "compile" and probe_verification_phase:
            k = "verif"
        if k == "compile":
            pcompile.append(d)
        if k != "verif" or "assertion failed" not in d.get("message", ""):
            continue
        for s in d.get("spans", []):
            for ln in range(s["line_start"], s["line_end"] + 1):
                if ln in probe_lines:
                    failed_probe_lines.add(ln)
    vac_all = [p for ln, p in probe_lines.items() if ln not in failed_probe_lines]
    vac = [p for p in vac_all if p.get("where") != "deep"]
    deep_vac = [p for p in vac_all if p.get("where") == "deep"]
    res["vacuity"] = {"probes": len(probe_lines), "failed_as_expected": len(failed_probe_lines), "vacuous": [f"probe {p['n']} ({p['where']}) line {p['line']}" for p in vac]}
    if deep_vac:
        res["vacuity"]["unreachable_nested_statements"] = [f"probe {p['n']} line {p['line']}" for p in deep_vac]
        res["notes"].append("audit: nested statements the verifier considers unreachable (legitimate under the precondition, or contradictory shim contracts?): " + ", ".join(res["vacuity"]["unreachable_nested_statements"][:8]))
    if pcompile and res["status"] == "ok":
        res["status"] = "undecided"
        res["notes"].append("probe pass did not compile: " + pcompile[0].get("message", "")[:300])
    elif vac and res["status"] == "ok" and not pcompile:
        res["status"] = "undecided"
        res["notes"].append("vacuity: reachability probes that did NOT fail (contradictory precondition or shim contract?): " + ", ".join(res["vacuity"]["vacuous"][:8]))
    if len(probe_lines) == 0:
        res["status"] = "undecided"
        res["notes"].append("vacuity: no probes generated")
    # solver time per obligation = SMT time of the function that carries it (Verus reports per function)
    ft = res.get("fn_times") or {}
    def fn_time_for(line):
        if line is None:
            return None
        for e in mp["extracts"]:
            gl = e.get("gen_lines")
            if gl and gl[0] is not None and gl[1] is not None and gl[0] <= line <= gl[1] and e["kind"] in ("whole-fn", "fragment"):
                m = re.search(r"fn\s+([A-Za-z0-9_]+)\s*$", e["item"].strip())
                nm = None
                for l2 in src_lines[e["gen_lines"][0]:e["gen_lines"][0] + 4]:
                    m2 = re.search(r"\bfn\s+([A-Za-z0-9_]+)", l2)
                    if m2:
                        nm = m2.group(1)
                        break
                nm = nm or (m.group(1) if m else None)
                if nm:
                    for k, v in ft.items():
                        if k.endswith("::" + nm):
                            return round(v["ms"] / 1000.0, 4)
        return None
    for o in obligations.values():
        sec = fn_time_for(o["line"])
        if sec is not None:
            o["seconds"] = sec
    res["obligations"] = list(obligations.values())
    res["wall_s"] = time.time() - t0
    res["gen_file"] = gens["main"][0]
    return res


def run_unit(u, repo, tier):
    eng = u.get("engine", "verus")
    if eng == "verus":
        return run_unit_verus(u, repo, tier)
    if eng == "kani":
        sys.path.insert(0, os.path.dirname(os.path.abspath(__file__)))
        import kani_unit
        return kani_unit.run(u, repo, tier, BUILD)
    if eng == "bounded":
        sys.path.insert(0, os.path.dirname(os.path.abspath(__file__)))
        import bounded_unit
        return bounded_unit.run(u, repo, tier, BUILD)
    return {"unit": u["name"], "status": "undecided", "notes": [f"unknown engine {eng}"], "obligations": [], "failures": [], "wall_s": 0}


SCRATCH_BASE = "/var/tmp/verif-scratch"


def scratch_copy(repo, tag):
    d = os.path.join(SCRATCH_BASE, f"{tag}-{os.getpid()}")
    shutil.rmtree(d, ignore_errors=True)
    os.makedirs(d)
    sh(["rsync", "-a", "--exclude", "/target", "--exclude", ".git", "--exclude", "/trees", repo.rstrip("/") + "/", d + "/"])
    return d


def thorough_extras(prop, sel, repo, known):
    """thorough tier: (1) seeded-change self-check, (2) replay of recorded findings on the real code,
    (3) solver-stability re-run of the Verus units with two other random seeds"""
    out = {"seeded": [], "finding_replays": [], "stability": [], "problems": []}
    # ---- (1) seeded changes of this property must turn an obligation red
    for md in sorted(glob.glob(os.path.join(ROOT, "seeded", "*", "meta.json"))):
        m = json.load(open(md))
        if m.get("breaks_property") != prop:
            continue
        sd = os.path.dirname(md)
        d = scratch_copy(repo, "seed")
        try:
            rc, o, e, _ = sh(["patch", "-p1", "-s", "-i", os.path.join(sd, "patch.diff")], cwd=d)
            if rc != 0:
                out["seeded"].append({"seed": os.path.basename(sd), "result": "patch does not apply to the current tree", "expected": m.get("expected")})
                continue
            red = []
            status = []
            verus_units = [u for u in sel if u.get("engine", "verus") == "verus"]
            with cf.ThreadPoolExecutor(max_workers=6) as ex:
                for r in ex.map(lambda u: run_unit_verus(dict(u, name=u["name"]), d), verus_units):
                    status.append((r["unit"], r["status"]))
                    for o2 in r["obligations"]:
                        if o2["status"] == "failed" and (not o2["props"] or prop in o2["props"]):
                            if not any(k["obligation"] == o2["label"] and k["property"] == prop for k in known):
                                red.append(o2["label"])
            for u in [u for u in sel if u.get("engine") == "bounded"]:
                r = run_unit(u, d, "thorough")
                status.append((r["unit"], r["status"]))
                for o2 in r["obligations"]:
                    if o2["status"] == "failed" and (not o2["props"] or prop in o2["props"]):
                        # a bounded test that is a recorded finding fails on EVERY tree: it says nothing about the seeded change
                        if not any(k["obligation"] == o2["label"] and k["property"] == prop for k in known):
                            red.append(o2["label"])
            caught = len(red) > 0
            undec = sorted(n for (n, st) in status if st == "undecided")
            rec = {"seed": os.path.basename(sd), "summary": m.get("summary", "")[:200], "expected": m.get("expected"), "caught": caught, "red_obligations": sorted(set(red))[:6],
                   "undecided_units": undec, "outcome": "caught" if caught else ("undecided" if undec else "missed")}
            out["seeded"].append(rec)
            if m.get("expected") == "caught" and not caught:
                out["problems"].append(f"seeded change {os.path.basename(sd)} is no longer caught (machinery too weak)")
            if m.get("expected") == "undecided" and not caught and not undec:
                out["problems"].append(f"seeded change {os.path.basename(sd)} now verifies silently (expected UNDECIDED)")
        finally:
            shutil.rmtree(d, ignore_errors=True)
    # ---- (2) recorded findings still manifest on the real code
    kf = [k for k in known if k["property"] == prop]
    replays = {"C01": [("notes/design-phase-replays.rs", "f4_own_immediate_merge_has_no_snapshot"), ("findings/f13_replay.rs", "verif_replay_f13")],
               "C02": [("findings/f13_replay.rs", "verif_replay_f13b")],
               "C16": [("notes/design-phase-replays.rs", "f3_welcome_for_held_group_id_disturbs_active_group")],
               "C11": [("findings/f16_replay.rs", "verif_replay_f16")],
               "C06": [("findings/f10_replay.rs", "verif_replay_f10"), ("findings/f12_replay.rs", "verif_replay_f12"), ("findings/f25_replay.rs", "verif_replay_f25")],
               "C08": [("findings/f12_replay.rs", "verif_replay_f12")],
               "C05": [("notes/design-phase-replays.rs", "f5_admin_add_sweeps_foreign_remove_proposal"), ("findings/f5b_replay.rs", "verif_replay_f5b"), ("findings/f5cd_replay.rs", "verif_replay_f5cd"), ("findings/f5e_replay.rs", "verif_replay_f5e")]}
    if kf and prop in replays:
        d = scratch_copy(repo, "replay")
        try:
            lib = os.path.join(d, "crates/mdk-core/src/lib.rs")
            with open(lib, "a") as fh:
                for (f, _t) in replays[prop]:
                    fh.write("\n" + open(os.path.join(ROOT, f)).read())
            env = dict(os.environ, CARGO_NET_OFFLINE="true", CARGO_TARGET_DIR=os.path.join(BUILD, "replay-target"))
            for (f, t) in replays[prop]:
                rc, o, e, w = sh(["cargo", "test", "--offline", "-p", "mdk-core", "--lib", t, "--", "--nocapture", "--test-threads", "1"], cwd=d, env=env, timeout=3000)
                passed = "test result: ok" in o and " 0 passed" not in o
                out["finding_replays"].append({"file": f, "test": t, "defect_still_manifests": passed, "seconds": round(w, 1)})
                if not passed:
                    out["problems"].append(f"replay {t} of a recorded finding no longer shows the defect (fixed upstream? update known_findings.txt)")
        finally:
            shutil.rmtree(d, ignore_errors=True)
    # ---- (3) stability: same verdict under two more solver seeds
    for u in [u for u in sel if u.get("engine", "verus") == "verus"]:
        verdicts = []
        for seed in (17, 4242):
            os.environ["VX_VERUS_EXTRA"] = f"--smt-option smt.random_seed={seed}"
            try:
                r = run_unit_verus(u, repo)
            finally:
                os.environ.pop("VX_VERUS_EXTRA", None)
            verdicts.append((seed, r["status"], sorted(o["label"] for o in r["obligations"] if o["status"] == "failed")))
        out["stability"].append({"unit": u["name"], "runs": [{"seed": a, "status": b, "failed": c} for (a, b, c) in verdicts]})
    return out


def trusted_base_scan(units_run):
    """mechanical scan of the templates (with includes) for assumptions"""
    tb = []
    pat = re.compile(r"external_body|assume_specification|assume\(|admit\(|external_type_specification|external\b|uninterp spec fn|#\[verifier::external")
    seen = set()
    for u in units_run:
        files = glob.glob(os.path.join(u["dir"], "*.tmpl")) + glob.glob(os.path.join(u["dir"], "*.rs"))
        txt = ""
        for f in files:
            txt += open(f).read()
        for inc in re.findall(r"//@include (\S+)", txt):
            files.append(os.path.normpath(os.path.join(u["dir"], inc)))
        for f in files:
            if not os.path.exists(f):
                continue
            lines = open(f).read().splitlines()
            for i, l in enumerate(lines):
                if pat.search(l) and not l.strip().startswith("//"):
                    # name = next fn/struct identifier on this or the following lines
                    nm = None
                    for k in range(i, min(i + 4, len(lines))):
                        m = re.search(r"(?:fn|struct|enum|assume_specification\s*\[)\s*([A-Za-z0-9_:<> ]+)", lines[k])
                        if m:
                            nm = m.group(1).strip()
                            break
                    key = (os.path.relpath(f, ROOT), nm or l.strip())
                    if key in seen:
                        continue
                    seen.add(key)
                    tb.append(f"{key[0]}: {key[1]}")
    return tb


def main():
    ap = argparse.ArgumentParser()
    ap.add_argument("prop", nargs="?")
    ap.add_argument("--tier", default=os.environ.get("VERIF_TIER", "quick"))
    ap.add_argument("--repo", default=os.environ.get("VERIF_REPO", "/repo"))
    ap.add_argument("--unit")
    ap.add_argument("--replay")
    ap.add_argument("--no-evidence", action="store_true")
    a = ap.parse_args()
    if a.replay:
        print(open(a.replay).read())
        return 0
    seed = int(os.environ.get("VERIF_SEED", "0") or 0)
    t0 = time.time()
    ensure_vx()
    units = load_units()
    if a.unit:
        sel = [units[a.unit]]
        prop = a.prop or "-"
    else:
        prop = a.prop
        sel = [u for u in units.values() if prop in u.get("properties", []) and (a.tier == "thorough" or u.get("tier", "quick") == "quick")]
    if not sel:
        print(f"UNDECIDED property={prop}: no unit registered")
        return 2
    os.makedirs(BUILD, exist_ok=True)
    results = []
    verus_units = [u for u in sel if u.get("engine", "verus") == "verus"]
    other_units = [u for u in sel if u.get("engine", "verus") != "verus"]
    with cf.ThreadPoolExecutor(max_workers=6) as ex:
        futs = [ex.submit(run_unit, u, a.repo, a.tier) for u in verus_units]
        # kani units share one scratch copy and are run sequentially in one worker
        kf = ex.submit(lambda: [run_unit(u, a.repo, a.tier) for u in other_units])
        for f in futs:
            results.append(f.result())
        results += kf.result()

    known = load_known()
    violations, undecided, known_hits, known_gone = [], [], [], []
    all_obl, discharged = [], 0
    per_obligation = []
    for r in results:
        if r["status"] == "undecided":
            undecided.append(r)
        fails_by_label = {}
        for f in r["failures"]:
            fails_by_label.setdefault(f["label"], []).append(f)
        for o in r["obligations"]:
            if not a.unit and o["props"] and prop not in o["props"]:
                continue
            kf = [k for k in known if k["obligation"] == o["label"] and (a.unit or k["property"] == prop)]
            entry = {"label": o["label"], "unit": r["unit"], "backend": r.get("engine"), "kind": o["kind"], "clause": o["text"], "status": o["status"]}
            if o.get("seconds") is not None:
                entry["seconds"] = o["seconds"]
            if o["status"] == "failed":
                fs = fails_by_label.get(o["label"], [])
                unexplained = []
                for f in fs:
                    if any(k["site"] in ("*", f["site"]) for k in kf):
                        continue
                    unexplained.append(f)
                if kf and not unexplained:
                    entry["status"] = "known-finding"
                    known_hits.append((kf[0], fs))
                elif r.get("hard_undecided"):
                    # the generated file did not even type-check: reported failures are not trustworthy
                    entry["status"] = "undecided"
                else:
                    # a failed obligation is a failed obligation, even if the unit is also flagged
                    # (e.g. a vacuity probe became unreachable because of the very same change)
                    violations.append((r, o, unexplained or fs))
                    all_obl.append(entry)
            else:
                unit_sites = {e.get("id") for e in r.get("extracts", [])}
                for k in kf:
                    if r["status"] == "ok" and (k["site"] == "*" or k["site"] in unit_sites):
                        known_gone.append(k)
                if r["status"] == "ok":
                    discharged += 1
                else:
                    entry["status"] = "undecided"
                all_obl.append(entry)
            per_obligation.append(entry)

    out_lines = []
    rc = 0
    os.makedirs(REPLAYS, exist_ok=True)
    for (k, fs) in known_hits:
        out_lines.append(f"KNOWN-FINDING: property={k['property']} {k['line'].split(' ', 2)[2] if len(k['line'].split(' ', 2)) > 2 else k['line']}")
    for k in known_gone:
        out_lines.append(f"NOTE: recorded finding no longer fails: {k['line']}")
    for (r, o, fs) in violations:
        rc = 1
        path = os.path.join(REPLAYS, f"{prop}-{o['label']}.json")
        rep = {"property": prop, "obligation": o["label"], "clause": o["text"], "kind": o["kind"], "unit": r["unit"], "engine": r.get("engine"),
               "failures": fs, "checker_cmd": r.get("checker_cmd"), "generated_file": r.get("gen_file"),
               "counterexample": None, "note": "deductive verifier gives no model; obligation was discharged on the unchanged tree"}
        for f in fs:
            if f.get("replay_file"):
                rep["counterexample"] = f["replay_file"]
        # function text
        try:
            for e in r.get("extracts", []):
                if fs and e["id"] == fs[0].get("site"):
                    lines = open(r["gen_file"]).read().splitlines()
                    rep["function_text"] = "\n".join(lines[e["gen_lines"][0] - 1:e["gen_lines"][1]])
                    rep["source"] = {"file": e["file"], "lines": e["src_lines"]}
        except Exception:
            pass
        json.dump(rep, open(path, "w"), indent=1)
        tail = "" if rep["counterexample"] else " no-failing-input-found"
        out_lines.append(f"VIOLATION property={prop} replay={path}{tail}")
    if rc == 0 and undecided:
        rc = 2
        for r in undecided:
            out_lines.append(f"UNDECIDED property={prop} unit={r['unit']}: " + " || ".join(r["notes"]))
    extras = None
    if a.tier == "thorough" and not a.unit:
        extras = thorough_extras(prop, sel, a.repo, known)
        for pr in extras["problems"]:
            out_lines.append(f"UNDECIDED property={prop} thorough: {pr}")
            if rc == 0:
                rc = 2
        base = {r["unit"]: sorted(o["label"] for o in r["obligations"] if o["status"] == "failed") for r in results}
        for st in extras["stability"]:
            for run in st["runs"]:
                base_status = {r["unit"]: r["status"] for r in results}.get(st["unit"])
                if (run["failed"] != base.get(st["unit"], []) or run["status"] != base_status) and rc == 0:
                    out_lines.append(f"UNDECIDED property={prop} thorough: unit {st['unit']} is solver-unstable (seed {run['seed']}: {run['failed']})")
                    rc = 2
    wall = time.time() - t0

    # evidence. Bounded stand-ins are reported separately and are NOT counted among the proved obligations.
    is_bounded = lambda e: str(e.get("kind", "")).startswith("bounded")
    bounded_obl = [e for e in all_obl if is_bounded(e)]
    all_obl = [e for e in all_obl if not is_bounded(e)]
    discharged -= sum(1 for e in bounded_obl if e["status"] == "discharged")
    n_obl = len(all_obl)
    ev = {
        "property_id": prop, "tier": a.tier if a.tier in ("quick", "thorough") else "quick", "seed": seed, "level": "proof",
        "coverage": {
            "obligations": n_obl, "discharged": discharged,
            "checker_cmd": " ;; ".join(r.get("checker_cmd", "") for r in results),
            "trusted_base": trusted_base_scan(sel),
            "functions_under_contract": [
                {"unit": r["unit"], "id": e["id"], "file": e["file"], "item": e["item"], "extraction": e["kind"], "fragment": e.get("frag"), "src_lines": e["src_lines"], "src_sha256": e["src_sha256"], "rewrites": e["rewrites"]}
                for r in results for e in r.get("extracts", []) if e["kind"] in ("whole-fn", "fragment")],
            "types_extracted": [e["item"] + " @ " + e["file"] for r in results for e in r.get("extracts", []) if e["kind"] not in ("whole-fn", "fragment")],
            "per_obligation": per_obligation,
            "units": [{"unit": r["unit"], "engine": r.get("engine"), "status": r["status"], "wall_s": round(r["wall_s"], 2), "smt_ms": r.get("smt_ms"), "verus_summary": r.get("verus_summary"), "fn_times_ms": r.get("fn_times"), "vacuity": r.get("vacuity"), "notes": r["notes"], "bounded": r.get("bounded", [])} for r in results],
            "known_findings": [{"line": k["line"], "verifier_messages": [f["message"] for f in fs][:3]} for (k, fs) in known_hits],
            "bounded": [b for r in results for b in r.get("bounded", []) if any(e["label"] == b.get("label") for e in bounded_obl) or not b.get("label")],
            "bounded_checks": {"note": "bounded stand-ins (real code executed on every scenario of a stated small scope); NOT proofs, not counted in obligations / discharged",
                               "run": len(bounded_obl), "passed": sum(1 for e in bounded_obl if e["status"] == "discharged"),
                               "checks": [{"label": e["label"], "status": e["status"], "scope_and_statement": e["kind"] + " -- " + e["clause"], "backend": e["backend"]} for e in bounded_obl]},
            "not_covered": [u.get("not_covered", "") for u in sel if u.get("not_covered")],
            "samples": [{"label": o["label"], "clause": o["clause"], "backend": o["backend"], "status": o["status"]} for o in per_obligation[:3]],
            "exhaustive": False,
            "thorough": extras,
        },
        "assumptions": sorted(set(x for u in sel for x in u.get("assumptions", []))) + ["usize is 64-bit", "shim contracts listed in trusted_base are assumed, not proved"],
        "wall_s": round(wall, 2),
        "violations": len(violations),
    }
    if not a.no_evidence and not a.unit:
        os.makedirs(EVID, exist_ok=True)
        json.dump(ev, open(os.path.join(EVID, f"{prop}.json"), "w"), indent=1)
    for l in out_lines:
        print(l)
    if bounded_obl:
        print(f"[{prop}] bounded stand-ins (not proofs): {sum(1 for e in bounded_obl if e['status'] == 'discharged')}/{len(bounded_obl)} passed")
    print(f"[{prop}] tier={a.tier} units={len(results)} obligations={n_obl} discharged={discharged} known-findings={len(known_hits)} violations={len(violations)} undecided-units={len(undecided)} wall={wall:.1f}s")
    if a.unit:
        for r in results:
            for f in r["failures"]:
                print("  FAIL", f["label"], "site=" + str(f["site"]), "-", f["message"], "line", f["line"])
            for n in r["notes"]:
                print("  NOTE", n)
            print("  vacuity:", r.get("vacuity"))
    return rc


if __name__ == "__main__":
    sys.exit(main())
