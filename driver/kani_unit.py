"""Kani engine (DESIGN.md §2.2): function contracts spliced onto a scratch copy of the real crates.

Nothing in /repo is edited. The scratch copy (sources only) lives outside /repo and /verif and is
removed at the end of the run; the cargo target directory is kept under /verif/build so that the
dependency build is reused between runs.
"""
import fcntl
import json
import os
import re
import shutil
import subprocess
import time

ROOT = os.path.dirname(os.path.dirname(os.path.abspath(__file__)))
VX = os.path.join(ROOT, "tools", "vx", "target", "release", "vx")
SCRATCH_BASE = "/var/tmp/verif-scratch"


def sh(cmd, cwd=None, timeout=None, env=None):
    t0 = time.time()
    try:
        p = subprocess.run(cmd, cwd=cwd, timeout=timeout, env=env, stdout=subprocess.PIPE, stderr=subprocess.STDOUT, text=True)
        return p.returncode, p.stdout, time.time() - t0
    except subprocess.TimeoutExpired as e:
        out = e.stdout.decode() if isinstance(e.stdout, bytes) else (e.stdout or "")
        return 124, out + "\nTIMEOUT", time.time() - t0


def prepare_scratch(u, repo, scratch):
    shutil.rmtree(scratch, ignore_errors=True)
    os.makedirs(scratch)
    rc, out, _ = sh(["rsync", "-a", "--exclude", "/target", "--exclude", ".git", "--exclude", "/trees", repo.rstrip("/") + "/", scratch + "/"])
    if rc != 0:
        return "rsync failed: " + out[-500:]
    # splice contract attributes
    byfile = {}
    for s in u.get("splices", []):
        byfile.setdefault(s["file"], []).append(s)
    metas = []
    for f, ss in byfile.items():
        path = os.path.join(scratch, f)
        locs = []
        for s in ss:
            rc, out, _ = sh([VX, "locate", path, s["item"]])
            if rc != 0:
                return f"anchor not found: {f} :: {s['item']}"
            j = json.loads(out.strip().splitlines()[-1])
            locs.append((j["start"], s, j))
        src = open(path, "rb").read()
        for start, s, j in sorted(locs, key=lambda x: -x[0]):
            ins = "".join(a + "\n    " for a in s["attrs"]).encode()
            src = src[:start] + ins + src[start:]
            metas.append({"file": f, "item": s["item"], "src_lines": [j["line"], j["end_line"]], "src_sha256": j["sha256"], "spliced": s["attrs"]})
        open(path, "wb").write(src)
    for ap in u.get("append", []):
        path = os.path.join(scratch, ap["file"])
        with open(path, "a") as fh:
            fh.write(open(os.path.join(u["dir"], ap["from"])).read())
    return metas


def parse_kani(out):
    res = {}
    parts = re.split(r"^Checking harness ", out, flags=re.M)
    for p in parts[1:]:
        name = p.split("...", 1)[0].strip()
        ok = "VERIFICATION:- SUCCESSFUL" in p
        failed = "VERIFICATION:- FAILED" in p
        m = re.search(r"Verification Time: ([0-9.]+)s", p)
        cov = re.search(r"\*\* (\d+) of (\d+) cover properties satisfied", p)
        chk = re.search(r"\*\* (\d+) of (\d+) failed", p)
        fc = re.findall(r"^Failed Checks: (.*)$", p, flags=re.M)
        unwind_fail = any("unwinding assertion" in x for x in fc)
        res[name] = {"ok": ok, "failed": failed, "seconds": float(m.group(1)) if m else None,
                     "covers": (int(cov.group(1)), int(cov.group(2))) if cov else None,
                     "checks": (int(chk.group(1)), int(chk.group(2))) if chk else None,
                     "failed_checks": fc, "unwind_fail": unwind_fail, "text": p[-4000:]}
    return res


def decode_playback(out, layout):
    # Kani prints one playback test per failed check AND per satisfied cover: take the first
    # test that belongs to a failed check (not to a cover)
    blocks = out.split("/// Test generated for harness")[1:]
    blocks = [b for b in blocks if "Check for `cover`" not in b] or blocks
    if blocks:
        out = blocks[0].split("concrete_playback_run")[0]
    vecs = re.findall(r"^\s*vec!\[([0-9,\s]*)\],?\s*$", out, flags=re.M)
    bs = []
    for v in vecs:
        bs.append([int(x) for x in v.replace(" ", "").split(",") if x != ""])
    vals = []
    k = 0
    try:
        for t in layout:
            if t in ("u64", "u32", "u16", "u8", "usize", "bool"):
                b = bs[k]
                k += 1
                vals.append(str(int.from_bytes(bytes(b), "little")))
            elif t.startswith("b"):
                n = int(t[1:])
                acc = []
                while len(acc) < n:
                    acc += bs[k]
                    k += 1
                vals.append(bytes(acc[:n]).hex())
    except IndexError:
        return None
    return ",".join(vals)


def run(u, repo, tier, build):
    name = u["name"]
    res = {"unit": name, "engine": "kani/cbmc", "status": "ok", "obligations": [], "failures": [], "notes": [], "wall_s": 0.0, "extracts": [], "bounded": u.get("bounded", [])}
    t0 = time.time()
    os.makedirs(SCRATCH_BASE, exist_ok=True)
    scratch = os.path.join(SCRATCH_BASE, f"kani-{name}-{os.getpid()}")
    target = os.path.join(build, "kani-target")
    os.makedirs(target, exist_ok=True)
    lock = open(os.path.join(build, "kani.lock"), "w")
    fcntl.flock(lock, fcntl.LOCK_EX)
    try:
        metas = prepare_scratch(u, repo, scratch)
        if isinstance(metas, str):
            res["status"] = "undecided"
            res["notes"].append(metas)
            return res
        for m in metas:
            res["extracts"].append({"id": name + ":" + m["item"], "file": m["file"], "item": m["item"], "kind": "whole-fn", "src_lines": m["src_lines"], "src_sha256": m["src_sha256"], "rewrites": {"kani-contract-attributes-spliced": len(m["spliced"])}})
        hs = [h for h in u["harnesses"] if tier == "thorough" or h.get("tier", "quick") == "quick"]
        env = dict(os.environ, CARGO_NET_OFFLINE="true", CARGO_TARGET_DIR=target)
        cmd = ["cargo", "kani", "-p", u["package"], "-Z", "function-contracts"] + u.get("kani_args", [])
        for h in hs:
            cmd += ["--harness", h["name"]]
        res["checker_cmd"] = "(scratch copy of /repo + spliced #[kani::ensures/requires]) " + " ".join(cmd)
        rc, out, wall = sh(cmd, cwd=scratch, env=env, timeout=int(u.get("timeout_s", 1800)))
        os.makedirs(os.path.join(build, name), exist_ok=True)
        open(os.path.join(build, name, "kani.log"), "w").write(out)
        pk = parse_kani(out)
        if rc == 124:
            res["status"] = "undecided"
            res["notes"].append("kani timed out")
        for h in hs:
            short = h["name"].split("::")[-1]
            r = None
            for k, v in pk.items():
                if k.endswith(short):
                    r = v
            ob = {"label": h["label"], "props": h["props"], "kind": "kani function contract (proof_for_contract)", "line": 0, "text": h["clause"], "status": "discharged"}
            if r is None:
                res["status"] = "undecided"
                res["notes"].append(f"no kani result for {h['name']} (build error? see build/{name}/kani.log): " + " | ".join(l for l in out.splitlines() if l.startswith("error"))[:600])
                ob["status"] = "failed"
                res["obligations"].append(ob)
                continue
            ob["seconds"] = r["seconds"]
            if r["ok"]:
                want = h.get("covers", 0)
                if want and (not r["covers"] or r["covers"][0] < want):
                    res["status"] = "undecided"
                    res["notes"].append(f"vacuity: cover properties of {h['name']} not all satisfied: {r['covers']}")
            elif r["unwind_fail"]:
                res["status"] = "undecided"
                res["notes"].append(f"{h['name']}: unwinding assertion failed (loop bound no longer sufficient)")
            elif r["failed"]:
                ob["status"] = "failed"
                f = {"label": h["label"], "site": h["name"], "message": "; ".join(r["failed_checks"])[:1000], "rendered": r["text"], "line": 0}
                # counterexample + replay on the real code
                if h.get("replay_test"):
                    cmd2 = ["cargo", "kani", "-p", u["package"], "-Z", "function-contracts", "-Z", "concrete-playback", "--concrete-playback=print", "--harness", h["name"]] + u.get("kani_args", [])
                    rc2, out2, _ = sh(cmd2, cwd=scratch, env=env, timeout=1800)
                    vals = decode_playback(out2, h.get("replay_layout", []))
                    if vals:
                        env3 = dict(os.environ, CARGO_NET_OFFLINE="true", CARGO_TARGET_DIR=os.path.join(build, "replay-target"), VX_REPLAY_VALS=vals)
                        cmd3 = ["cargo", "test", "--offline", "-p", u["package"], "--lib", h["replay_test"], "--", "--nocapture"]
                        rc3, out3, _ = sh(cmd3, cwd=scratch, env=env3, timeout=1800)
                        rp = os.path.join(ROOT, "replays", f"{h['label']}.replay.txt")
                        os.makedirs(os.path.dirname(rp), exist_ok=True)
                        open(rp, "w").write(f"# counterexample from Kani concrete playback for {h['name']}\nVX_REPLAY_VALS={vals}\n# replay on the real code (scratch copy of /repo, no Kani):\n# {' '.join(cmd3)}\n# exit status {rc3} (non-zero == the real function violates the contract on this input)\n\n" + out3[-4000:])
                        f["replay_file"] = rp
                        f["replay_confirmed"] = rc3 != 0
                        f["counterexample"] = vals
                        if rc3 == 0:
                            res["notes"].append(f"{h['name']}: Kani counterexample did NOT reproduce on the real code")
                res["failures"].append(f)
            else:
                res["status"] = "undecided"
                res["notes"].append(f"{h['name']}: no verdict")
            res["obligations"].append(ob)
        return res
    finally:
        shutil.rmtree(scratch, ignore_errors=True)
        fcntl.flock(lock, fcntl.LOCK_UN)
        res["wall_s"] = time.time() - t0
