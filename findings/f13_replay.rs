// Replay of F13 (known finding, not repaired) against the current tree: append to crates/mdk-core/src/lib.rs of a scratch copy and run
//   cargo test --offline -p mdk-core --lib verif_replay_f13 -- --nocapture
// Observed on 5482d75: "F13 bob gets C2 first: Err(Failed to decrypt message with any exporter secret ...)", "F13 bob gets C1: Ok(Commit) epoch=2", "F13 bob re-offered C2 (round 0..2): Ok(Unprocessable) epoch=2 name=one (alice epoch=3 name=two)". The test ASSERTS THE DEFECT.
#[cfg(test)]
mod verif_replay_f13 {
    use crate::groups::NostrGroupDataUpdate;
    use crate::test_util::*;
    use crate::tests::create_test_mdk;
    use nostr::Keys;

    // F13 candidate: a commit that reaches a member AHEAD of its predecessor is recorded as Failed and is then refused
    // for ever, even when it is offered again after the predecessor has been applied.
    #[test]
    fn f13_commit_ahead_of_predecessor_is_refused_for_ever() {
        let (ak, bk) = (Keys::generate(), Keys::generate());
        let (a, b) = (create_test_mdk(), create_test_mdk());
        let res = a.create_group(&ak.public_key(), vec![create_key_package_event(&b, &bk)], create_nostr_group_config_data(vec![ak.public_key()])).unwrap();
        let gid = res.group.mls_group_id.clone();
        a.merge_pending_commit(&gid).unwrap();
        let w = b.process_welcome(&nostr::EventId::all_zeros(), &res.welcome_rumors[0]).unwrap();
        b.accept_welcome(&w).unwrap();
        let c1 = a.update_group_data(&gid, NostrGroupDataUpdate::new().name("one".to_string())).unwrap().evolution_event;
        a.merge_pending_commit(&gid).unwrap();
        let c2 = a.update_group_data(&gid, NostrGroupDataUpdate::new().name("two".to_string())).unwrap().evolution_event;
        a.merge_pending_commit(&gid).unwrap();
        let r_ahead = b.process_message(&c2);
        println!("F13 bob gets C2 first: {:?}", r_ahead.as_ref().map(std::mem::discriminant).map_err(|e| e.to_string()));
        let r1 = b.process_message(&c1);
        println!("F13 bob gets C1: {:?} epoch={}", r1.as_ref().map(std::mem::discriminant).map_err(|e| e.to_string()), b.get_group(&gid).unwrap().unwrap().epoch);
        for round in 0..3 {
            let r2 = b.process_message(&c2);
            println!("F13 bob re-offered C2 (round {}): {:?} epoch={} name={:?} (alice epoch={} name={:?})", round, r2.as_ref().map(std::mem::discriminant).map_err(|e| e.to_string()),
                     b.get_group(&gid).unwrap().unwrap().epoch, b.get_group(&gid).unwrap().unwrap().name, a.get_group(&gid).unwrap().unwrap().epoch, a.get_group(&gid).unwrap().unwrap().name);
        }
        assert_ne!(b.get_group(&gid).unwrap().unwrap().epoch, a.get_group(&gid).unwrap().unwrap().epoch, "expected Bob stuck behind Alice (defect) on the current tree");
    }
}
#[cfg(test)]
mod verif_replay_f13b {
    use crate::groups::NostrGroupDataUpdate;
    use crate::test_util::*;
    use crate::tests::create_test_mdk;
    use nostr::Keys;

    // F13 seen from C02: an application message that reaches a member before the commit that opens its epoch is
    // recorded as Failed and is refused for ever, although the member later reaches that epoch.
    #[test]
    fn f13b_message_ahead_of_its_commit_is_never_stored() {
        let (ak, bk) = (Keys::generate(), Keys::generate());
        let (a, b) = (create_test_mdk(), create_test_mdk());
        let res = a.create_group(&ak.public_key(), vec![create_key_package_event(&b, &bk)], create_nostr_group_config_data(vec![ak.public_key()])).unwrap();
        let gid = res.group.mls_group_id.clone();
        a.merge_pending_commit(&gid).unwrap();
        let w = b.process_welcome(&nostr::EventId::all_zeros(), &res.welcome_rumors[0]).unwrap();
        b.accept_welcome(&w).unwrap();
        let c1 = a.update_group_data(&gid, NostrGroupDataUpdate::new().name("one".to_string())).unwrap().evolution_event;
        a.merge_pending_commit(&gid).unwrap();
        let mut rumor = create_test_rumor(&ak, "sent in epoch 2");
        let mid = rumor.id();
        let m = a.create_message(&gid, rumor).unwrap();
        let r0 = b.process_message(&m);
        println!("F13b bob gets the message first: {:?}", r0.as_ref().map(std::mem::discriminant).map_err(|e| e.to_string()));
        let r1 = b.process_message(&c1);
        println!("F13b bob gets C1: {:?} epoch={}", r1.as_ref().map(std::mem::discriminant).map_err(|e| e.to_string()), b.get_group(&gid).unwrap().unwrap().epoch);
        for round in 0..2 {
            let r2 = b.process_message(&m);
            println!("F13b bob re-offered the message (round {}): {:?} stored={}", round, r2.as_ref().map(std::mem::discriminant).map_err(|e| e.to_string()), b.get_message(&gid, &mid).unwrap().is_some());
        }
        assert!(b.get_message(&gid, &mid).unwrap().is_none(), "expected the message never to be stored at Bob (defect) on the current tree");
    }
}
