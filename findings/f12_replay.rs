// Replay of F12 (known finding, not repaired) against the current tree: append to crates/mdk-core/src/lib.rs of a scratch copy and run
//   cargo test --offline -p mdk-core --lib verif_replay_f12 -- --nocapture
// Observed on 5482d75: "F12 process_message -> Ok(Unprocessable); G1 (stored epoch, MLS epoch) before=(1, 1) after=(1, 2)". The test ASSERTS THE DEFECT.
#[cfg(test)]
mod verif_replay_f12 {
    use crate::groups::NostrGroupDataUpdate;
    use crate::messages::MessageProcessingResult;
    use crate::test_util::*;
    use crate::tests::create_test_mdk;
    use nostr::Keys;

    // F12: an admin of group G1 rotates G1's Nostr group id to the id another group G2 of the receiver is using
    // (Nostr group ids are public: they are the h tag of every wrapper). The receiver merges the commit, then the
    // metadata sync is refused by the back end (nostr id owned by another group), the event is reported as failed,
    // and G1's MLS state has moved on while its record has not.
    #[test]
    fn f12_commit_rotating_nostr_id_onto_another_groups_id_is_merged_then_refused() {
        let (ak, bk, ck) = (Keys::generate(), Keys::generate(), Keys::generate());
        let (a, b, c) = (create_test_mdk(), create_test_mdk(), create_test_mdk());
        // G1: Alice (admin) + Bob
        let r1 = a.create_group(&ak.public_key(), vec![create_key_package_event(&b, &bk)], create_nostr_group_config_data(vec![ak.public_key()])).unwrap();
        let g1 = r1.group.mls_group_id.clone();
        a.merge_pending_commit(&g1).unwrap();
        let w = b.process_welcome(&nostr::EventId::all_zeros(), &r1.welcome_rumors[0]).unwrap();
        b.accept_welcome(&w).unwrap();
        // G2: Carol (admin) + Bob
        let r2 = c.create_group(&ck.public_key(), vec![create_key_package_event(&b, &bk)], create_nostr_group_config_data(vec![ck.public_key()])).unwrap();
        let g2 = r2.group.mls_group_id.clone();
        c.merge_pending_commit(&g2).unwrap();
        let w2 = b.process_welcome(&nostr::EventId::from_slice(&[1u8; 32]).unwrap(), &r2.welcome_rumors[0]).unwrap();
        b.accept_welcome(&w2).unwrap();
        let n2 = b.get_group(&g2).unwrap().unwrap().nostr_group_id;
        // Alice rotates G1's nostr group id to G2's
        let ev = a.update_group_data(&g1, NostrGroupDataUpdate::new().nostr_group_id(n2)).unwrap().evolution_event;
        let before = (b.get_group(&g1).unwrap().unwrap().epoch, b.load_mls_group(&g1).unwrap().unwrap().epoch().as_u64());
        let r = b.process_message(&ev);
        let after = (b.get_group(&g1).unwrap().unwrap().epoch, b.load_mls_group(&g1).unwrap().unwrap().epoch().as_u64());
        println!("F12 process_message -> {:?}; G1 (stored epoch, MLS epoch) before={:?} after={:?}", r.as_ref().map(std::mem::discriminant).map_err(|e| e.to_string()), before, after);
        let refused = matches!(r, Err(_)) || matches!(r, Ok(MessageProcessingResult::Unprocessable { .. }));
        assert!(refused, "expected the commit to be reported as failed");
        assert_ne!(before.1, after.1, "expected the refused commit to have advanced the MLS epoch (defect) on the current tree");
    }
}
