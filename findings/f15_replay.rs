// Replay of F15 against the PRE-FIX tree (mdk @ 5482d75): append to crates/mdk-core/src/lib.rs of a scratch copy and run
//   cargo test --offline -p mdk-core --lib verif_replay_f15 -- --nocapture
// Observed on 5482d75: "F15 before the race: carol(sqlite) holds 3 messages, dave(memory) holds 3", "F15 after the rollback: carol(sqlite) epoch=2 holds 0 messages; dave(memory) epoch=2 holds 3". The test ASSERTS THE DEFECT; with the fix carol holds 3.
#[cfg(test)]
mod verif_replay_f15 {
    use crate::MDK;
    use crate::messages::MessageProcessingResult;
    use crate::test_util::*;
    use crate::tests::create_test_mdk;
    use mdk_sqlite_storage::MdkSqliteStorage;
    use nostr::Keys;

    // F15: on the SQLite back end a rollback (commit race resolved by MIP-03) deletes the group's row and re-inserts it;
    // the `messages` table references `groups` with ON DELETE CASCADE, so EVERY stored message of the group is erased,
    // including the messages of earlier epochs that belong to the winning branch. The in-memory back end keeps them.
    #[test]
    fn f15_rollback_on_sqlite_erases_the_groups_message_history() {
        let (ak, bk, ck) = (Keys::generate(), Keys::generate(), Keys::generate());
        let (a, b) = (create_test_mdk(), create_test_mdk());
        let c = MDK::new(MdkSqliteStorage::new_unencrypted(":memory:").unwrap());   // Carol runs on SQLite
        let m = create_test_mdk();                                                   // Mallory-free control: Dave on memory
        let dk = Keys::generate();
        let res = a.create_group(&ak.public_key(), vec![create_key_package_event(&b, &bk), create_key_package_event(&c, &ck), create_key_package_event(&m, &dk)],
                                 create_nostr_group_config_data(vec![ak.public_key(), bk.public_key()])).unwrap();
        let gid = res.group.mls_group_id.clone();
        a.merge_pending_commit(&gid).unwrap();
        let w = b.process_welcome(&nostr::EventId::all_zeros(), &res.welcome_rumors[0]).unwrap(); b.accept_welcome(&w).unwrap();
        let w = c.process_welcome(&nostr::EventId::all_zeros(), &res.welcome_rumors[1]).unwrap(); c.accept_welcome(&w).unwrap();
        let w = m.process_welcome(&nostr::EventId::all_zeros(), &res.welcome_rumors[2]).unwrap(); m.accept_welcome(&w).unwrap();
        // three ordinary messages in epoch 1, received by Carol (SQLite) and Dave (memory)
        for i in 0..3 {
            let ev = a.create_message(&gid, create_test_rumor(&ak, &format!("hello {i}"))).unwrap();
            assert!(matches!(c.process_message(&ev).unwrap(), MessageProcessingResult::ApplicationMessage(_)));
            assert!(matches!(m.process_message(&ev).unwrap(), MessageProcessingResult::ApplicationMessage(_)));
        }
        println!("F15 before the race: carol(sqlite) holds {} messages, dave(memory) holds {}", c.get_messages(&gid, None).unwrap().len(), m.get_messages(&gid, None).unwrap().len());
        // race on epoch 1: Bob commits first (earlier timestamp = MIP-03 winner), Alice one second later
        let bob_commit = b.self_update(&gid).unwrap().evolution_event;
        std::thread::sleep(std::time::Duration::from_millis(1100));
        let alice_commit = a.self_update(&gid).unwrap().evolution_event;
        // both receivers get the LOSER first, then the winner -> rollback to epoch 1 and re-apply
        for x in [&c as &dyn Proc, &m as &dyn Proc] {
            x.feed(&alice_commit);
            x.feed(&bob_commit);
        }
        let (nc, nm) = (c.get_messages(&gid, None).unwrap().len(), m.get_messages(&gid, None).unwrap().len());
        println!("F15 after the rollback: carol(sqlite) epoch={} holds {} messages; dave(memory) epoch={} holds {}", c.get_group(&gid).unwrap().unwrap().epoch, nc, m.get_group(&gid).unwrap().unwrap().epoch, nm);
        assert_eq!(nm, 3, "control: the memory back end keeps the three epoch-1 messages");
        assert_eq!(nc, 0, "expected the SQLite back end to have lost the group's messages (defect) on the current tree");
    }
    trait Proc { fn feed(&self, e: &nostr::Event); }
    impl<S: mdk_storage_traits::MdkStorageProvider> Proc for MDK<S> { fn feed(&self, e: &nostr::Event) { let r = self.process_message(e); println!("F15   process -> {:?}", r.as_ref().map(std::mem::discriminant).map_err(|x| x.to_string())); } }
}
