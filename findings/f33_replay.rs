// Replay of F33 against the PRE-FIX tree (mdk @ cc7c159): append to crates/mdk-core/src/lib.rs of a scratch copy and run
//   cargo test --offline -p mdk-core --lib verif_replay_f33 -- --nocapture
// Observed on cc7c159: "F33 after the removal: bob's group Inactive", "F33 the used invitation (state Accepted) accepted again: true; bob's group Active epoch 1; bob can send: true", "F33 carol (a current member) on bob's message: Ok(\"Discriminant(0)\")" [ApplicationMessage].
// The test ASSERTS THE DEFECT; with the fix (13458cf) the group stays Inactive and bob cannot send.
#[cfg(test)]
mod verif_replay_f33 {
    use crate::messages::MessageProcessingResult;
    use crate::test_util::*;
    use crate::tests::create_test_mdk;
    use nostr::Keys;

    // F33: C03 "once a client has processed its own removal the group is inactive for it" / C16: Bob joins, is removed (group Inactive),
    // and the invitation he used long ago is accepted AGAIN: accept_welcome re-joins at the invitation's epoch (key packages are
    // last-resort, into_group replaces the old group) and marks the group Active; Bob's client sends into the group again.
    #[test]
    fn f33_a_used_invitation_re_activates_the_group_after_the_removal() {
        let (ak, bk, ck) = (Keys::generate(), Keys::generate(), Keys::generate());
        let (a, b, c) = (create_test_mdk(), create_test_mdk(), create_test_mdk());
        let res = a.create_group(&ak.public_key(), vec![create_key_package_event(&b, &bk), create_key_package_event(&c, &ck)], create_nostr_group_config_data(vec![ak.public_key()])).unwrap();
        let gid = res.group.mls_group_id.clone();
        a.merge_pending_commit(&gid).unwrap();
        let z = nostr::EventId::all_zeros();
        let wb = b.process_welcome(&z, &res.welcome_rumors[0]).unwrap(); b.accept_welcome(&wb).unwrap();
        let wc = c.process_welcome(&z, &res.welcome_rumors[1]).unwrap(); c.accept_welcome(&wc).unwrap();
        let rm = a.remove_members(&gid, &[bk.public_key()]).unwrap().evolution_event;
        a.merge_pending_commit(&gid).unwrap();
        assert!(matches!(b.process_message(&rm).unwrap(), MessageProcessingResult::Commit { .. }));
        let _ = c.process_message(&rm);
        println!("F33 after the removal: bob's group {:?}", b.get_group(&gid).unwrap().unwrap().state);
        let again = b.process_welcome(&z, &res.welcome_rumors[0]).unwrap();   // same wrapper id: the stored (Accepted) welcome
        let r = b.accept_welcome(&again);
        let g = b.get_group(&gid).unwrap().unwrap();
        let sent = b.create_message(&gid, create_test_rumor(&bk, "from the removed member"));
        println!("F33 the used invitation (state {:?}) accepted again: {:?}; bob's group {:?} epoch {}; bob can send: {}", again.state, r.is_ok(), g.state, g.epoch, sent.is_ok());
        if let Ok(ev) = sent { println!("F33 carol (a current member) on bob's message: {:?}", c.process_message(&ev).map(|x| format!("{:?}", std::mem::discriminant(&x))).map_err(|e| format!("{e:?}").chars().take(50).collect::<String>())); }
        assert_eq!(format!("{:?}", g.state), "Active");
    }
}
