// Replay of F14 (observed defect OUTSIDE the reach of the contracts: the hint key is built by string formatting and looked up by substring / SQL LIKE; not claimed by any check, not repaired) against the current tree: append to crates/mdk-core/src/lib.rs of a scratch copy and run
//   cargo test --offline -p mdk-core --features mip04 --lib verif_replay_f14 -- --nocapture
// Observed on 5482d75: "F14 bob decrypts share #0: true  share #1: false". The test ASSERTS THE DEFECT.
#[cfg(all(test, feature = "mip04"))]
mod verif_replay_f14 {
    use crate::messages::MessageProcessingResult;
    use crate::test_util::*;
    use crate::tests::create_test_mdk;
    use nostr::{EventBuilder, Keys, Kind, TagKind};

    // F14 (C17): the epoch hint of a media file is looked up by the file's CONTENT hash ("x <hash>") among all messages
    // of the group and the first hit wins. When the same file is shared twice, in two different epochs, the two
    // ciphertexts are encrypted under two different exporter secrets but share the hint: one of them can no longer be
    // decrypted once the group has moved on.
    #[test]
    fn f14_same_file_shared_in_two_epochs_second_copy_undecryptable() {
        let (ak, bk) = (Keys::generate(), Keys::generate());
        let (a, b) = (create_test_mdk(), create_test_mdk());
        let kb = create_key_package_event(&b, &bk);
        let res = a.create_group(&ak.public_key(), vec![kb], create_nostr_group_config_data(vec![ak.public_key()])).unwrap();
        let gid = res.group.mls_group_id.clone();
        a.merge_pending_commit(&gid).unwrap();
        let w = b.process_welcome(&nostr::EventId::all_zeros(), &res.welcome_rumors[0]).unwrap();
        b.accept_welcome(&w).unwrap();
        let payload = b"the same holiday picture".to_vec();
        let mut uploads = vec![];
        let mut refs = vec![];
        for round in 0..2 {
            let am = a.media_manager(gid.clone());
            let upload = am.encrypt_for_upload(&payload, "text/plain", "f.txt").unwrap();
            let imeta = am.create_imeta_tag(&upload, "https://blossom.example/f.txt");
            let rumor = EventBuilder::new(Kind::Custom(9), format!("share #{round}")).tag(imeta).build(ak.public_key());
            let announce = a.create_message(&gid, rumor).unwrap();
            let received = match b.process_message(&announce).unwrap() {
                MessageProcessingResult::ApplicationMessage(m) => m,
                other => panic!("expected application message, got {other:?}"),
            };
            let bm = b.media_manager(gid.clone());
            let tag = received.tags.iter().find(|t| t.kind() == TagKind::Custom("imeta".into())).unwrap();
            refs.push(bm.parse_imeta_tag(tag).unwrap());
            uploads.push(upload);
            // the group moves on one epoch after each share
            let u = a.self_update(&gid).unwrap();
            a.merge_pending_commit(&gid).unwrap();
            b.process_message(&u.evolution_event).unwrap();
        }
        let bm = b.media_manager(gid.clone());
        let r: Vec<bool> = (0..2).map(|i| bm.decrypt_from_download(&uploads[i].encrypted_data, &refs[i]).map(|d| d == payload).unwrap_or(false)).collect();
        println!("F14 bob decrypts share #0: {}  share #1: {}", r[0], r[1]);
        assert!(!(r[0] && r[1]), "expected one of the two copies to be undecryptable (defect) on the current tree");
    }
}
