// Replay of F7 against the PRE-FIX tree (mdk @ 63303a5): append to crates/mdk-core/src/lib.rs of a scratch copy and run
//   cargo test --offline -p mdk-core --features mip04 --lib verif_replay_f7 -- --nocapture
// Observed on 63303a5: 'F7 stored epoch hint at Bob = Some(3) (message was sent in epoch 1)', 'F7 bob decrypt: Err(DecryptionFailed ...)', 'F7 alice decrypt ok=true'.
// The test ASSERTS THE DEFECT; with the fix (888738f) Bob stores Some(1) and decrypts (observed 'F7 bob decrypt: Ok(12)').
#[cfg(all(test, feature = "mip04"))]
mod verif_replay_f7 {
    use crate::messages::MessageProcessingResult;
    use crate::test_util::*;
    use crate::tests::create_test_mdk;
    use nostr::{EventBuilder, Keys, Kind, TagKind};

    // F7 (C17): a member that processes the announcing message only AFTER later commits (late delivery,
    // inside the past-epoch window) stores the processing-time epoch as the media epoch hint and can
    // never decrypt the file.
    #[test]
    fn f7_media_undecryptable_when_announcement_is_processed_after_later_commits() {
        let (ak, bk) = (Keys::generate(), Keys::generate());
        let (a, b) = (create_test_mdk(), create_test_mdk());
        let kb = create_key_package_event(&b, &bk);
        let res = a.create_group(&ak.public_key(), vec![kb], create_nostr_group_config_data(vec![ak.public_key()])).unwrap();
        let gid = res.group.mls_group_id.clone();
        a.merge_pending_commit(&gid).unwrap();
        let w = b.process_welcome(&nostr::EventId::all_zeros(), &res.welcome_rumors[0]).unwrap();
        b.accept_welcome(&w).unwrap();

        let payload = b"members only".to_vec();
        let am = a.media_manager(gid.clone());
        let upload = am.encrypt_for_upload(&payload, "text/plain", "f.txt").unwrap();
        let imeta = am.create_imeta_tag(&upload, "https://blossom.example/f.txt");
        let rumor = EventBuilder::new(Kind::Custom(9), "see attachment").tag(imeta).build(ak.public_key());
        let announce = a.create_message(&gid, rumor).unwrap();

        // two commits happen before Bob sees the announcement
        let mut commits = vec![];
        for _ in 0..2 {
            let u = a.self_update(&gid).unwrap();
            a.merge_pending_commit(&gid).unwrap();
            commits.push(u.evolution_event);
        }
        for c in &commits { b.process_message(c).unwrap(); }
        // late delivery of the announcing message (2 epochs old: inside the default window of 5)
        let received = match b.process_message(&announce).unwrap() {
            MessageProcessingResult::ApplicationMessage(m) => m,
            other => panic!("expected application message, got {other:?}"),
        };
        println!("F7 stored epoch hint at Bob = {:?} (message was sent in epoch 1)", received.epoch);
        let bm = b.media_manager(gid.clone());
        let tag = received.tags.iter().find(|t| t.kind() == TagKind::Custom("imeta".into())).unwrap();
        let r = bm.parse_imeta_tag(tag).unwrap();
        let res = bm.decrypt_from_download(&upload.encrypted_data, &r);
        println!("F7 bob decrypt: {:?}", res.as_ref().map(|v| v.len()).map_err(|e| format!("{e:?}")));
        // Alice (who stored epoch 1 at creation) still can
        let ar = am.create_media_reference(&upload, "https://blossom.example/f.txt".to_string());
        let ares = a.media_manager(gid.clone()).decrypt_from_download(&upload.encrypted_data, &ar);
        println!("F7 alice decrypt ok={}", ares.is_ok());
        assert!(res.is_err(), "expected Bob unable to decrypt (defect) on current tree");
    }
}
