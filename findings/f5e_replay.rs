// Replay of F5 at the self_update call site (known finding, not repaired) against the current tree: append to crates/mdk-core/src/lib.rs of a scratch copy and run
//   cargo test --offline -p mdk-core --lib verif_replay_f5e -- --nocapture
// Observed on 5482d75: "F5e alice on bob's self-update: Ok(Unprocessable)", "F5e bob: epoch=2 members=2; alice: epoch=1 members=3". The test ASSERTS THE DEFECT.
#[cfg(test)]
mod verif_replay_f5e {
    use crate::messages::MessageProcessingResult;
    use crate::test_util::*;
    use crate::tests::create_test_mdk;
    use nostr::Keys;

    // F5 at a fifth call site: MDK::self_update of a NON-admin sweeps the pending proposal queue into its commit. The
    // commit is then no pure self-update: every receiver refuses it (CommitFromNonAdmin), while the sender, who merges
    // its own commit, has carried out somebody else's proposal and is alone in its epoch.
    #[test]
    fn f5e_non_admin_self_update_sweeps_foreign_proposal() {
        let (ak, bk, ck) = (Keys::generate(), Keys::generate(), Keys::generate());
        let (a, b, c) = (create_test_mdk(), create_test_mdk(), create_test_mdk());
        let (kb, kc) = (create_key_package_event(&b, &bk), create_key_package_event(&c, &ck));
        let res = a.create_group(&ak.public_key(), vec![kb, kc], create_nostr_group_config_data(vec![ak.public_key()])).unwrap();
        let gid = res.group.mls_group_id.clone();
        a.merge_pending_commit(&gid).unwrap();
        for (m, i) in [(&b, 0usize), (&c, 1usize)] {
            let w = m.process_welcome(&nostr::EventId::all_zeros(), &res.welcome_rumors[i]).unwrap();
            m.accept_welcome(&w).unwrap();
        }
        // Carol asks to leave; non-admin Bob stores the proposal as pending (the admin has not seen it yet)
        let p = c.leave_group(&gid).unwrap().evolution_event;
        assert!(matches!(b.process_message(&p).unwrap(), MessageProcessingResult::PendingProposal { .. }));
        // Bob only refreshes his own key
        let su = b.self_update(&gid).unwrap().evolution_event;
        b.merge_pending_commit(&gid).unwrap();
        let ra = a.process_message(&su);
        println!("F5e alice on bob's self-update: {:?}", ra.as_ref().map(std::mem::discriminant).map_err(|e| e.to_string()));
        println!("F5e bob: epoch={} members={}; alice: epoch={} members={}", b.get_group(&gid).unwrap().unwrap().epoch, b.get_members(&gid).unwrap().len(),
                 a.get_group(&gid).unwrap().unwrap().epoch, a.get_members(&gid).unwrap().len());
        assert_eq!(b.get_members(&gid).unwrap().len(), 2, "expected Bob's own self-update to have removed Carol (defect) on the current tree");
        assert!(ra.is_err() || matches!(ra, Ok(MessageProcessingResult::Unprocessable { .. })), "expected Alice not to apply the non-admin's commit");
    }
}
