// Replay of F8 against the PRE-FIX tree (mdk @ 888738f): append to crates/mdk-core/src/lib.rs of a scratch copy and run
//   cargo test --offline -p mdk-core --lib verif_replay_f8 -- --nocapture
// Observed on 888738f: "F8 bob after commit: epoch=2 members=2", "F8 bob after re-delivery of P: result=Ok(Unprocessable) epoch=1 members=3", "F8 bob after commit re-offered: result=Ok(Unprocessable) epoch=1 members=3 (alice epoch=2)".
// The test ASSERTS THE DEFECT; with the fix (57937f4) the re-delivery leaves epoch=2 members=2.
#[cfg(test)]
mod verif_replay_f8 {
    use crate::messages::MessageProcessingResult;
    use crate::test_util::*;
    use crate::tests::create_test_mdk;
    use nostr::Keys;

    // F8: a stale PROPOSAL (already handled, or merely late) is run through the MIP-03 comparison as if it were a
    // competing commit: it is older than the commit that was applied for its epoch, so the receiver rolls back,
    // invalidates the applied commit and stays behind for ever.
    #[test]
    fn f8_redelivered_proposal_rolls_back_applied_commit() {
        let (ak, bk, ck) = (Keys::generate(), Keys::generate(), Keys::generate());
        let (a, b, c) = (create_test_mdk(), create_test_mdk(), create_test_mdk());
        let (kb, kc) = (create_key_package_event(&b, &bk), create_key_package_event(&c, &ck));
        let res = a.create_group(&ak.public_key(), vec![kb, kc], create_nostr_group_config_data(vec![ak.public_key()])).unwrap();
        let gid = res.group.mls_group_id.clone();
        a.merge_pending_commit(&gid).unwrap();
        for (m, i) in [(&b, 0usize), (&c, 1usize)] {
            let w = m.process_welcome(&nostr::EventId::all_zeros(), &res.welcome_rumors[i]).unwrap();
            m.accept_welcome(&w).unwrap();
        }
        // Carol asks to leave: proposal event P, created in epoch 1
        let p = c.leave_group(&gid).unwrap().evolution_event;
        let r = b.process_message(&p).unwrap();
        println!("F8 bob first delivery of P: {:?}", std::mem::discriminant(&r));
        // make the commit strictly younger than the proposal (created_at has one-second resolution)
        std::thread::sleep(std::time::Duration::from_millis(1100));
        // admin Alice auto-commits the leave
        let commit = match a.process_message(&p).unwrap() {
            MessageProcessingResult::Proposal(u) => u.evolution_event,
            other => panic!("expected auto-commit, got {:?}", other),
        };
        a.merge_pending_commit(&gid).unwrap();
        assert!(matches!(b.process_message(&commit).unwrap(), MessageProcessingResult::Commit { .. }));
        let before = (b.get_group(&gid).unwrap().unwrap().epoch, b.get_members(&gid).unwrap().len());
        println!("F8 bob after commit: epoch={} members={}", before.0, before.1);
        // P is delivered to Bob again (relay re-send)
        let r2 = b.process_message(&p);
        let after = (b.get_group(&gid).unwrap().unwrap().epoch, b.get_members(&gid).unwrap().len());
        println!("F8 bob after re-delivery of P: result={:?} epoch={} members={}", r2.as_ref().map(std::mem::discriminant), after.0, after.1);
        // ... and the commit is offered again until nothing changes
        let r3 = b.process_message(&commit);
        let fin = (b.get_group(&gid).unwrap().unwrap().epoch, b.get_members(&gid).unwrap().len());
        println!("F8 bob after commit re-offered: result={:?} epoch={} members={} (alice epoch={})", r3.as_ref().map(std::mem::discriminant), fin.0, fin.1, a.get_group(&gid).unwrap().unwrap().epoch);
        assert_ne!(before, after, "expected the re-delivered proposal to change Bob's state (defect) on the current tree");
    }
}
