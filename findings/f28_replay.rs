// Replay of F28 against the PRE-FIX tree (mdk @ ef81bd9; fixed in 0b5e75d): append to crates/mdk-core/src/lib.rs of a scratch copy and run
//   cargo test --offline -p mdk-core --lib verif_replay_f28 -- --nocapture
// Observed on ef81bd9: "F28 before the second accept: record epoch 2 name \"epoch two\" MLS epoch 2; second accept_welcome: Ok(\"Ok\"); after: record epoch 2 ... state Active MLS epoch 1; alice's next message: Err(\"Message(\\\"Failed to decrypt message with any exporter secret ...". With the fix the MLS epoch stays 2 and the message is read.
#[cfg(test)]
mod verif_replay_f28 {
    use crate::test_util::*;
    use crate::tests::create_test_mdk;
    use crate::messages::MessageProcessingResult;
    use nostr::Keys;
    #[test]
    fn f28_accepting_the_same_invitation_twice_rewinds_the_group() {
        let (ak, bk) = (Keys::generate(), Keys::generate());
        let (a, b) = (create_test_mdk(), create_test_mdk());
        let res = a.create_group(&ak.public_key(), vec![create_key_package_event(&b, &bk)], create_nostr_group_config_data(vec![ak.public_key()])).unwrap();
        let gid = res.group.mls_group_id.clone();
        a.merge_pending_commit(&gid).unwrap();
        let w = b.process_welcome(&nostr::EventId::all_zeros(), &res.welcome_rumors[0]).unwrap();
        b.accept_welcome(&w).unwrap();
        let c = a.update_group_data(&gid, crate::groups::NostrGroupDataUpdate::new().name("epoch two".to_string())).unwrap().evolution_event;
        a.merge_pending_commit(&gid).unwrap();
        assert!(matches!(b.process_message(&c).unwrap(), MessageProcessingResult::Commit { .. }));
        let g1 = b.get_group(&gid).unwrap().unwrap();
        let mls1 = b.load_mls_group(&gid).unwrap().unwrap().epoch().as_u64();
        let r = b.accept_welcome(&w);
        let g2 = b.get_group(&gid).unwrap().unwrap();
        let mls2 = b.load_mls_group(&gid).unwrap().unwrap().epoch().as_u64();
        let m = a.create_message(&gid, create_test_rumor(&ak, "after")).unwrap();
        println!("F28 before the second accept: record epoch {} name {:?} MLS epoch {mls1}; second accept_welcome: {:?}; after: record epoch {} name {:?} state {:?} MLS epoch {mls2}; alice's next message: {:?}",
                 g1.epoch, g1.name, r.as_ref().map(|_| "Ok").map_err(|e| format!("{e:?}")), g2.epoch, g2.name, g2.state, b.process_message(&m).map(|x| format!("{:?}", std::mem::discriminant(&x))).map_err(|e| format!("{e:?}").chars().take(60).collect::<String>()));
    }
}
