// Replay of finding F5 (auto-commit site) against the real crates: append to crates/mdk-core/src/lib.rs of a scratch copy and run
//   cargo test --offline -p mdk-core --lib verif_replay_f5b -- --nocapture
// Observed on f9a2750 (2026-10-02): 'F5b members after: bob=false carol=true dave=false' — the test ASSERTS THE DEFECT.
#[cfg(test)]
mod verif_replay_f5b {
    use crate::messages::MessageProcessingResult;
    use crate::test_util::*;
    use crate::tests::create_test_mdk;
    use nostr::Keys;
    use tls_codec::Serialize as _;

    // F5 (auto-commit site): a non-admin's Remove(Bob) proposal is pending at admin Alice; Dave asks to leave;
    // Alice's auto-commit of Dave's self-remove also executes the foreign Remove(Bob).
    #[test]
    fn f5b_auto_commit_of_leave_sweeps_foreign_remove_proposal() {
        let (ak, bk, ck, dk) = (Keys::generate(), Keys::generate(), Keys::generate(), Keys::generate());
        let (a, b, c, d) = (create_test_mdk(), create_test_mdk(), create_test_mdk(), create_test_mdk());
        let kb = create_key_package_event(&b, &bk);
        let kc = create_key_package_event(&c, &ck);
        let kd = create_key_package_event(&d, &dk);
        let admins = vec![ak.public_key()];
        let res = a.create_group(&ak.public_key(), vec![kb, kc, kd], create_nostr_group_config_data(admins)).unwrap();
        let gid = res.group.mls_group_id.clone();
        a.merge_pending_commit(&gid).unwrap();
        for (m, i) in [(&b, 0usize), (&c, 1), (&d, 2)] {
            let w = m.process_welcome(&nostr::EventId::all_zeros(), &res.welcome_rumors[i]).unwrap();
            m.accept_welcome(&w).unwrap();
        }
        // Carol (non-admin) proposes to remove Bob, directly with the MLS library
        let mut gc = c.load_mls_group(&gid).unwrap().unwrap();
        let signer = c.load_mls_signer(&gc).unwrap();
        let bob_idx = gc.members().find(|m| c.pubkey_for_member(m).unwrap() == bk.public_key()).unwrap().index;
        let (msg, _ref) = gc.propose_remove_member(&c.provider, &signer, bob_idx).unwrap();
        let ev = c.build_message_event(&gid, msg.tls_serialize_detached().unwrap()).unwrap();
        let r = a.process_message(&ev).unwrap();
        assert!(matches!(r, MessageProcessingResult::PendingProposal { .. }), "foreign Remove(Bob) is stored as pending: {:?}", r);
        // Dave leaves: self-remove proposal
        let leave = d.leave_group(&gid).unwrap();
        let r2 = a.process_message(&leave.evolution_event).unwrap();
        println!("F5b leave result: {:?}", r2);
        assert!(matches!(r2, MessageProcessingResult::Proposal(_)), "admin auto-commits the leave");
        a.merge_pending_commit(&gid).unwrap();
        let after = a.get_members(&gid).unwrap();
        println!("F5b members after: bob={} carol={} dave={}", after.contains(&bk.public_key()), after.contains(&ck.public_key()), after.contains(&dk.public_key()));
        assert!(!after.contains(&dk.public_key()), "Dave left");
        assert!(!after.contains(&bk.public_key()), "expected Bob swept out too (defect) on current tree");
    }
}
