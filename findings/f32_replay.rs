// Replay of F32 against the PRE-FIX tree (mdk @ 0abaf9c): append to crates/mdk-core/src/lib.rs of a scratch copy and run
//   cargo test --offline -p mdk-core --lib verif_replay_f32 -- --nocapture
// Observed on 0abaf9c: "F32 alice's members after the commit: bob=false eve=true", "F32 bob's answer to the commit that removed him: Ok(\"Discriminant(6)\") [Unprocessable]; bob's group record: state Active epoch 1".
// The test ASSERTS THE DEFECT; with the fix (cc7c159) bob answers Commit and the group is Inactive.
#[cfg(test)]
mod verif_replay_f32 {
    use crate::messages::MessageProcessingResult;
    use crate::test_util::*;
    use crate::tests::create_test_mdk;
    use nostr::Keys;
    use tls_codec::Serialize as _;

    // F32: C03 "once a client has processed its own removal the group is inactive for it": process_commit detects the local member's
    // eviction with `own_leaf().is_none()`, i.e. by LEAF INDEX. A commit that removes Bob and adds Eve puts Eve into Bob's vacated
    // leaf: Bob's client merges the commit, finds a leaf at its old index, and keeps the group Active.
    #[test]
    fn f32_removed_member_whose_leaf_is_reused_stays_active() {
        let (ak, bk, ck, ek) = (Keys::generate(), Keys::generate(), Keys::generate(), Keys::generate());
        let (a, b, c, e) = (create_test_mdk(), create_test_mdk(), create_test_mdk(), create_test_mdk());
        let res = a.create_group(&ak.public_key(), vec![create_key_package_event(&b, &bk), create_key_package_event(&c, &ck)], create_nostr_group_config_data(vec![ak.public_key()])).unwrap();
        let gid = res.group.mls_group_id.clone();
        a.merge_pending_commit(&gid).unwrap();
        for (m, i) in [(&b, 0usize), (&c, 1)] { let w = m.process_welcome(&nostr::EventId::all_zeros(), &res.welcome_rumors[i]).unwrap(); m.accept_welcome(&w).unwrap(); }
        // a Remove(Bob) proposal is pending at admin Alice (here sent by member Carol; a leave proposal of Bob himself that could not be
        // auto-committed at once does the same); Alice then adds Eve: OpenMLS commits the pending proposal along with the add (F5)
        let mut gc = c.load_mls_group(&gid).unwrap().unwrap();
        let signer = c.load_mls_signer(&gc).unwrap();
        let bob_idx = gc.members().find(|m| c.pubkey_for_member(m).unwrap() == bk.public_key()).unwrap().index;
        let (msg, _) = gc.propose_remove_member(&c.provider, &signer, bob_idx).unwrap();
        let ev = c.build_message_event(&gid, msg.tls_serialize_detached().unwrap()).unwrap();
        assert!(matches!(a.process_message(&ev).unwrap(), MessageProcessingResult::PendingProposal { .. }));
        let _ = b.process_message(&ev);
        let add = a.add_members(&gid, &[create_key_package_event(&e, &ek)]).unwrap();
        a.merge_pending_commit(&gid).unwrap();
        let members = a.get_members(&gid).unwrap();
        println!("F32 alice's members after the commit: bob={} eve={}", members.contains(&bk.public_key()), members.contains(&ek.public_key()));
        let r = b.process_message(&add.evolution_event);
        let g = b.get_group(&gid).unwrap().unwrap();
        println!("F32 bob's answer to the commit that removed him: {:?}; bob's group record: state {:?} epoch {}", r.as_ref().map(|x| format!("{:?}", std::mem::discriminant(x))).map_err(|e| format!("{e:?}").chars().take(60).collect::<String>()), g.state, g.epoch);
        assert!(!members.contains(&bk.public_key()) && format!("{:?}", g.state) == "Active");
    }
}
