// Replay of F25 against the real code (mdk @ 2ee6600): append to crates/mdk-core/src/lib.rs of a scratch copy and run
//   cargo test --offline -p mdk-core --lib verif_replay_f25 -- --nocapture
// Observed: see the OBSERVED line in known_findings.txt / DESIGN 8.3 (F25). The test ASSERTS THE DEFECT.
#[cfg(test)]
mod verif_replay_f25 {
    use crate::MDK;
    use crate::messages::MessageProcessingResult;
    use crate::test_util::*;
    use crate::tests::create_test_mdk;
    use nostr::Keys;
    use tls_codec::Serialize as TlsSerialize;
    use openmls_traits::OpenMlsProvider;

    // F25: C06 "a refused event leaves nothing behind but its failure record" / C05: the MIP-03 rollback is decided on the wrapper's
    // timestamp and id alone and carried out BEFORE the late commit is authorised. A NON-admin member crafts a commit for epoch E in a
    // wrapper older than the admin's legitimate commit; a receiver that already applied the legitimate commit rolls back to E, then
    // refuses the crafted commit (CommitFromNonAdmin) -- and stays at E: the legitimate commit's record is EpochInvalidated.
    #[test]
    fn f25_refused_non_admin_commit_rolls_the_group_back() {
        let (ak, bk, ck) = (Keys::generate(), Keys::generate(), Keys::generate());
        let (a, b, c) = (create_test_mdk(), create_test_mdk(), create_test_mdk());
        let res = a.create_group(&ak.public_key(), vec![create_key_package_event(&b, &bk), create_key_package_event(&c, &ck)], create_nostr_group_config_data(vec![ak.public_key()])).unwrap();
        let gid = res.group.mls_group_id.clone();
        a.merge_pending_commit(&gid).unwrap();
        let z = nostr::EventId::all_zeros();
        let w = b.process_welcome(&z, &res.welcome_rumors[0]).unwrap(); b.accept_welcome(&w).unwrap();
        let w = c.process_welcome(&z, &res.welcome_rumors[1]).unwrap(); c.accept_welcome(&w).unwrap();
        // non-admin carol crafts a removal of bob at epoch 1, in a wrapper created NOW (earlier than alice's commit below); she does not merge it
        let hostile = {
            let mut g = c.load_mls_group(&gid).unwrap().unwrap();
            let own = g.own_leaf_index();
            let victim = g.members().find(|m| m.index != own && m.index.u32() != 0).map(|m| m.index).unwrap();
            let signer = c.load_mls_signer(&g).unwrap();
            let (commit, _, _) = g.remove_members(&c.provider, &signer, &[victim]).unwrap();
            let e = c.build_message_event(&gid, commit.tls_serialize_detached().unwrap()).unwrap();
            g.clear_pending_commit(c.provider.storage()).unwrap();
            e
        };
        std::thread::sleep(std::time::Duration::from_millis(1100));
        // admin alice renames the group (legitimate commit, epoch 1 -> 2), one second later
        let legit = a.update_group_data(&gid, crate::groups::NostrGroupDataUpdate::new().name("renamed by the admin".to_string())).unwrap().evolution_event;
        a.merge_pending_commit(&gid).unwrap();
        let m = a.create_message(&gid, create_test_rumor(&ak, "sent in epoch 2")).unwrap();
        assert!(matches!(b.process_message(&legit).unwrap(), MessageProcessingResult::Commit { .. }));
        assert!(matches!(b.process_message(&m).unwrap(), MessageProcessingResult::ApplicationMessage(_)));
        let before = b.get_group(&gid).unwrap().unwrap();
        let r = b.process_message(&hostile);
        let after = b.get_group(&gid).unwrap().unwrap();
        let msgs: Vec<String> = b.get_messages(&gid, None).unwrap().iter().map(|x| format!("{:?}", x.state)).collect();
        println!("F25 bob before the crafted commit: epoch {} name {:?}; answer to the non-admin's older-stamped commit: {:?}; after: epoch {} name {:?}; stored message states {:?}",
                 before.epoch, before.name, r.as_ref().map(|x| format!("{:?}", std::mem::discriminant(x))), after.epoch, after.name, msgs);
        let again = b.process_message(&legit);
        println!("F25 the legitimate commit offered again: {:?}; bob's epoch {}", again.as_ref().map(|x| format!("{:?}", std::mem::discriminant(x))), b.get_group(&gid).unwrap().unwrap().epoch);
        let next = a.create_message(&gid, create_test_rumor(&ak, "alice's next message")).unwrap();
        println!("F25 alice's next message at bob: {:?}", b.process_message(&next).map(|x| format!("{:?}", std::mem::discriminant(&x))));
        assert!(!matches!(r, Ok(MessageProcessingResult::Commit { .. })), "the non-admin commit itself is refused");
        assert!(after.epoch < before.epoch, "the refused event rolled the group back");
    }
}
