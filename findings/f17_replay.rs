// Replay of F17 against the PRE-FIX tree (mdk @ fafe9fa): append to crates/mdk-sqlite-storage/src/lib.rs of a scratch copy and run
//   cargo test --offline -p mdk-sqlite-storage --lib verif_replay_f17 -- --nocapture
// Observed on fafe9fa: "F17 second create_group_snapshot(g, N) on sqlite: Err(Database(\"Database error: UNIQUE constraint failed: group_state_snapshots.snapshot_name, group_state_snapshots.group_id, group_state_snapshots.table_name, group_state_snapshots.row_key\"))".
// The test ASSERTS THE DEFECT; with the fix (7019410) the call returns Ok and a rollback to N restores the state of the SECOND take.
#[cfg(test)]
mod verif_replay_f17 {
    use super::*;
    use mdk_storage_traits::groups::GroupStorage;
    use mdk_storage_traits::groups::types::{Group, GroupState, SelfUpdateState};
    use std::collections::BTreeSet;

    fn group(name: &str, epoch: u64) -> Group {
        Group { mls_group_id: GroupId::from_slice(&[1; 4]), nostr_group_id: [1; 32], name: name.into(), description: String::new(), admin_pubkeys: BTreeSet::new(),
                last_message_id: None, last_message_at: None, last_message_processed_at: None, epoch, state: GroupState::Active,
                image_hash: None, image_key: None, image_nonce: None, self_update_state: SelfUpdateState::Required }
    }
    // F17: C09 "re-taking a snapshot under an existing name replaces it" -- the SQLite back end fails on the primary key instead
    #[test]
    fn f17_retaking_a_snapshot_name_fails_on_sqlite() {
        let s = MdkSqliteStorage::new_unencrypted(":memory:").unwrap();
        let g = GroupId::from_slice(&[1; 4]);
        s.save_group(group("state A", 1)).unwrap();
        s.create_group_snapshot(&g, "N").unwrap();
        s.save_group(group("state B", 2)).unwrap();
        let rs = s.create_group_snapshot(&g, "N");
        println!("F17 second create_group_snapshot(g, N) on sqlite: {rs:?}   (the memory back end replaces: mdk-memory-storage/src/lib.rs create_group_snapshot uses HashMap::insert)");
        assert!(rs.is_err());
    }
}
