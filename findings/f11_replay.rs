// Replay of F11 against the PRE-FIX tree (mdk @ 7449a5d): append to crates/mdk-core/src/lib.rs of a scratch copy and run
//   cargo test --offline -p mdk-core --lib verif_replay_f11 -- --nocapture
// Observed on 7449a5d: "F11 process_message -> Ok(Unprocessable); (stored epoch, MLS epoch) before=(1, 1) after=(1, 2)". The test ASSERTS THE DEFECT; with the fix (5482d75): after=(1, 1).
#[cfg(test)]
mod verif_replay_f11 {
    use crate::messages::MessageProcessingResult;
    use crate::test_util::*;
    use crate::tests::create_test_mdk;
    use nostr::Keys;
    use openmls::prelude::*;
    use tls_codec::Serialize as _;

    // F11: the content of a commit's new group-data extension is not looked at before the commit is merged: an admin's
    // commit that replaces the 0xF2EE extension by undecodable bytes is merged (MLS epoch advances, state persisted),
    // THEN sync_group_metadata_from_mls fails, the event is reported as failed, and the group is unusable.
    #[test]
    fn f11_admin_commit_with_undecodable_group_data_is_merged_then_refused() {
        let (ak, bk) = (Keys::generate(), Keys::generate());
        let (a, b) = (create_test_mdk(), create_test_mdk());
        let kb = create_key_package_event(&b, &bk);
        let res = a.create_group(&ak.public_key(), vec![kb], create_nostr_group_config_data(vec![ak.public_key()])).unwrap();
        let gid = res.group.mls_group_id.clone();
        a.merge_pending_commit(&gid).unwrap();
        let w = b.process_welcome(&nostr::EventId::all_zeros(), &res.welcome_rumors[0]).unwrap();
        b.accept_welcome(&w).unwrap();
        // admin Alice (modified client) builds the commit directly with the MLS library
        let mut ga = a.load_mls_group(&gid).unwrap().unwrap();
        let signer = a.load_mls_signer(&ga).unwrap();
        let mut exts = ga.extensions().clone();
        exts.add_or_replace(Extension::Unknown(0xF2EE, UnknownExtension(vec![0xde, 0xad, 0xbe, 0xef]))).unwrap();
        let (msg, _, _) = ga.update_group_context_extensions(&a.provider, exts, &signer).unwrap();
        let ev = a.build_message_event(&gid, msg.tls_serialize_detached().unwrap()).unwrap();
        let before = (b.get_group(&gid).unwrap().unwrap().epoch, b.load_mls_group(&gid).unwrap().unwrap().epoch().as_u64());
        let r = b.process_message(&ev);
        let after = (b.get_group(&gid).unwrap().unwrap().epoch, b.load_mls_group(&gid).unwrap().unwrap().epoch().as_u64());
        let usable = b.create_message(&gid, create_test_rumor(&bk, "hello"));
        println!("F11 process_message -> {:?}; (stored epoch, MLS epoch) before={:?} after={:?}; create_message afterwards ok={} ({:?})",
                 r.as_ref().map(std::mem::discriminant).map_err(|e| e.to_string()), before, after, usable.is_ok(), usable.as_ref().err().map(|e| e.to_string()));
        let refused = matches!(r, Err(_)) || matches!(r, Ok(MessageProcessingResult::Unprocessable { .. }));
        assert!(refused, "expected the commit to be reported as failed");
        assert_ne!(before.1, after.1, "expected the refused commit to have advanced the MLS epoch (defect) on the current tree");
    }
}
