// Replay of F9 against the PRE-FIX tree (mdk @ 57937f4): append to crates/mdk-core/src/lib.rs of a scratch copy and run
//   cargo test --offline -p mdk-core --lib verif_replay_f9 -- --nocapture
// Observed on 57937f4: "F9 process_welcome -> Err(MissingRumorEventId); groups before=0 after=1 state=Some(Pending) pending_welcomes=0".
// The test ASSERTS THE DEFECT; with the fix (7449a5d): "groups before=0 after=0".
#[cfg(test)]
mod verif_replay_f9 {
    use crate::test_util::*;
    use crate::tests::create_test_mdk;
    use nostr::Keys;

    // F9: process_welcome checks that the rumor carries an id only AFTER it has saved the Pending group and its relays:
    // a welcome rumor without an `id` field is refused (Err(MissingRumorEventId)) but leaves a group record behind.
    #[test]
    fn f9_refused_welcome_without_rumor_id_leaves_a_group_record() {
        let (ak, bk) = (Keys::generate(), Keys::generate());
        let (a, b) = (create_test_mdk(), create_test_mdk());
        let kb = create_key_package_event(&b, &bk);
        let res = a.create_group(&ak.public_key(), vec![kb], create_nostr_group_config_data(vec![ak.public_key()])).unwrap();
        let mut rumor = res.welcome_rumors[0].clone();
        rumor.id = None; // what `UnsignedEvent::from_json` yields for a rumor JSON without an "id" field
        let before = b.get_groups().unwrap().len();
        let r = b.process_welcome(&nostr::EventId::all_zeros(), &rumor);
        let after = b.get_groups().unwrap();
        println!("F9 process_welcome -> {:?}; groups before={} after={} state={:?} pending_welcomes={}", r.as_ref().map(|_| ()), before, after.len(), after.first().map(|g| g.state), b.get_pending_welcomes(None).unwrap().len());
        assert!(r.is_err());
        assert_eq!(after.len(), before + 1, "expected a group record left behind by the refused welcome (defect) on the current tree");
    }
}
