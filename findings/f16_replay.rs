// Replay of F16 (known finding, C11, not repaired) against the current tree: append to crates/mdk-core/src/lib.rs of a scratch copy and run
//   cargo test --offline -p mdk-core --lib verif_replay_f16 -- --nocapture
// Two bystanders of one group get exactly the same events. One of them (on a SQLite database file) is closed and re-opened between
// the losing and the winning commit of a race. The never-restarted bystander rolls back and follows the MIP-03 winner; the restarted
// one has lost the commit timestamp of its snapshot (EpochSnapshotManager::parse_snapshot_name sets applied_commit_ts = 0 and
// is_better_candidate never lets a re-loaded snapshot lose), keeps the losing commit and refuses the winner: "the ability to
// resolve a commit race by rollback" does not survive the restart. The test PASSES while the defect manifests.
#[cfg(test)]
mod verif_replay_f16 {
    use crate::MDK;
    use crate::test_util::*;
    use crate::tests::create_test_mdk;
    use mdk_sqlite_storage::MdkSqliteStorage;
    use nostr::Keys;

    #[test]
    fn f16_race_resolution_does_not_survive_a_restart() {
        let dir = std::env::temp_dir().join(format!("verif-f16-{}-{}", std::process::id(), std::time::SystemTime::now().duration_since(std::time::UNIX_EPOCH).unwrap().as_nanos()));
        std::fs::create_dir_all(&dir).unwrap();
        let db = dir.join("client.db");
        let open = || MDK::new(MdkSqliteStorage::new_unencrypted(&db).unwrap());
        let result = std::panic::catch_unwind(std::panic::AssertUnwindSafe(|| {
            let (ak, bk, k1, k2) = (Keys::generate(), Keys::generate(), Keys::generate(), Keys::generate());
            let (a, b) = (create_test_mdk(), create_test_mdk());
            let stay = open();                                             // never restarted (control: also SQLite, its own file)
            let db2 = dir.join("restarted.db");
            let open2 = || MDK::new(MdkSqliteStorage::new_unencrypted(&db2).unwrap());
            let mut rest = open2();
            let res = a.create_group(&ak.public_key(), vec![create_key_package_event(&b, &bk), create_key_package_event(&stay, &k1), create_key_package_event(&rest, &k2)],
                                     create_nostr_group_config_data(vec![ak.public_key(), bk.public_key()])).unwrap();
            let gid = res.group.mls_group_id.clone();
            a.merge_pending_commit(&gid).unwrap();
            let z = nostr::EventId::all_zeros();
            let w = b.process_welcome(&z, &res.welcome_rumors[0]).unwrap(); b.accept_welcome(&w).unwrap();
            let w = stay.process_welcome(&z, &res.welcome_rumors[1]).unwrap(); stay.accept_welcome(&w).unwrap();
            let w = rest.process_welcome(&z, &res.welcome_rumors[2]).unwrap(); rest.accept_welcome(&w).unwrap();
            // race on epoch 1: bob first (MIP-03 winner: earlier timestamp), alice one second later (loser)
            let bob_commit = b.self_update(&gid).unwrap().evolution_event;
            std::thread::sleep(std::time::Duration::from_millis(1100));
            let alice_commit = a.self_update(&gid).unwrap().evolution_event;
            assert!(bob_commit.created_at < alice_commit.created_at);
            // both bystanders get the LOSER first
            stay.process_message(&alice_commit).unwrap(); rest.process_message(&alice_commit).unwrap();
            // one of them restarts
            drop(rest); rest = open2();
            // both get the winner
            let r_stay = stay.process_message(&bob_commit); let r_rest = rest.process_message(&bob_commit);
            println!("F16 never-restarted bystander on the winner: {:?}", r_stay.as_ref().map(std::mem::discriminant).map_err(|e| e.to_string()));
            println!("F16 restarted bystander on the winner: {:?}", r_rest.as_ref().map(std::mem::discriminant).map_err(|e| e.to_string()));
            // the winner's author goes on; only a bystander that adopted the winner can read him
            b.merge_pending_commit(&gid).unwrap();
            let m = b.create_message(&gid, create_test_rumor(&bk, "bob after the race")).unwrap();
            let (m_stay, m_rest) = (stay.process_message(&m), rest.process_message(&m));
            let reads = |r: &Result<crate::messages::MessageProcessingResult, crate::Error>| matches!(r, Ok(crate::messages::MessageProcessingResult::ApplicationMessage(_)));
            println!("F16 reads the winner's next message: never-restarted {} / restarted {}", reads(&m_stay), reads(&m_rest));
            assert!(reads(&m_stay), "control: the never-restarted bystander follows the MIP-03 winner");
            assert!(!reads(&m_rest), "F16 no longer manifests: the restarted bystander followed the winner too");
        }));
        let _ = std::fs::remove_dir_all(&dir);
        if let Err(e) = result { std::panic::resume_unwind(e); }
    }
}
