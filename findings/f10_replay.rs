// Replay of F10 (known finding, not repaired) against the current tree: append to crates/mdk-core/src/lib.rs of a scratch copy and run
//   cargo test --offline -p mdk-core --lib verif_replay_f10 -- --nocapture
// Observed on 7449a5d: "F10 process_message(leave proposal) -> Ok(Unprocessable); pending removals before=0 after=1". The test ASSERTS THE DEFECT.
#[cfg(test)]
mod verif_replay_f10 {
    use crate::test_util::*;
    use crate::tests::create_test_mdk;
    use nostr::Keys;

    // F10: an admin that has an own commit pending (created, not yet merged) receives a member's leave proposal:
    // auto_commit_proposal first stores the proposal in the MLS proposal queue and only then asks OpenMLS to
    // commit, which is refused while a commit is pending. The event is reported as failed, but the proposal
    // stays queued.
    #[test]
    fn f10_refused_leave_proposal_stays_in_the_queue() {
        let (ak, bk, ck) = (Keys::generate(), Keys::generate(), Keys::generate());
        let (a, b, c) = (create_test_mdk(), create_test_mdk(), create_test_mdk());
        let (kb, kc) = (create_key_package_event(&b, &bk), create_key_package_event(&c, &ck));
        let res = a.create_group(&ak.public_key(), vec![kb, kc], create_nostr_group_config_data(vec![ak.public_key()])).unwrap();
        let gid = res.group.mls_group_id.clone();
        a.merge_pending_commit(&gid).unwrap();
        for (m, i) in [(&b, 0usize), (&c, 1usize)] {
            let w = m.process_welcome(&nostr::EventId::all_zeros(), &res.welcome_rumors[i]).unwrap();
            m.accept_welcome(&w).unwrap();
        }
        // Alice starts a self-update and has not merged it yet (waiting for the relay)
        let _pending = a.self_update(&gid).unwrap();
        let p = c.leave_group(&gid).unwrap().evolution_event;
        let before = a.pending_removed_members_pubkeys(&gid).unwrap();
        let r = a.process_message(&p);
        let after = a.pending_removed_members_pubkeys(&gid).unwrap();
        println!("F10 process_message(leave proposal) -> {:?}; pending removals before={} after={}", r.as_ref().map(std::mem::discriminant).map_err(|e| e.to_string()), before.len(), after.len());
        let refused = matches!(r, Err(_)) || matches!(r, Ok(crate::messages::MessageProcessingResult::Unprocessable { .. }));
        assert!(refused, "expected the proposal to be refused while a commit is pending");
        assert_eq!(after.len(), before.len() + 1, "expected the refused proposal to stay queued (defect) on the current tree");
    }
}
