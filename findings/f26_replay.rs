// Replay of F26 against the PRE-FIX tree (mdk @ 2ee6600; fixed in ef81bd9): append to crates/mdk-core/src/lib.rs of a scratch copy and run
//   cargo test --offline -p mdk-core --lib verif_replay_f26 -- --nocapture
// Observed on 2ee6600: "F26 after accept: group Active; ...", "F26 decline of the duplicate: true; group Inactive; ...". The test ASSERTS THE DEFECT; with the fix the group stays Active.
#[cfg(test)]
mod verif_replay_f26 {
    use crate::test_util::*;
    use crate::tests::create_test_mdk;
    use nostr::Keys;

    // F26: C16 "No invitation ... modifies or disables a group in which the user is already an active member": the same invitation reaches
    // Bob under two gift-wrap ids (a retry of the inviter's client); Bob accepts one copy and declines the duplicate: decline_welcome sets
    // whatever record is stored under the welcome's MLS group id to Inactive -- the group Bob has just joined.
    #[test]
    fn f26_declining_a_duplicate_invitation_disables_the_joined_group() {
        let (ak, bk) = (Keys::generate(), Keys::generate());
        let (a, b) = (create_test_mdk(), create_test_mdk());
        let res = a.create_group(&ak.public_key(), vec![create_key_package_event(&b, &bk)], create_nostr_group_config_data(vec![ak.public_key()])).unwrap();
        let gid = res.group.mls_group_id.clone();
        a.merge_pending_commit(&gid).unwrap();
        let w1 = b.process_welcome(&nostr::EventId::from_slice(&[1; 32]).unwrap(), &res.welcome_rumors[0]).unwrap();
        let w2 = b.process_welcome(&nostr::EventId::from_slice(&[2; 32]).unwrap(), &res.welcome_rumors[0]).unwrap();
        b.accept_welcome(&w1).unwrap();
        let m1 = a.create_message(&gid, create_test_rumor(&ak, "first")).unwrap();
        println!("F26 after accept: group {:?}; alice's message: {:?}", b.get_group(&gid).unwrap().unwrap().state, b.process_message(&m1).map(|r| format!("{:?}", std::mem::discriminant(&r))));
        let r = b.decline_welcome(&w2);
        let m2 = a.create_message(&gid, create_test_rumor(&ak, "second")).unwrap();
        let state = b.get_group(&gid).unwrap().unwrap().state;
        println!("F26 decline of the duplicate: {:?}; group {:?}; bob can send: {}; alice's next message: {:?}", r.is_ok(), state, b.create_message(&gid, create_test_rumor(&bk, "x")).is_ok(), b.process_message(&m2).map(|r| format!("{:?}", std::mem::discriminant(&r))));
        assert_eq!(format!("{state:?}"), "Inactive");
    }
}
