// Replay of F6 (sender side of F2) against the PRE-FIX tree (mdk @ f9a2750): append to crates/mdk-core/src/lib.rs of a scratch copy and run
//   cargo test --offline -p mdk-core --lib verif_replay_f6 -- --nocapture
// Observed on f9a2750: 'F6 create ok=true after: pubkey_is_bob=true content="bob forged" verify_id_ok=false'. The test ASSERTS THE DEFECT; with the fix create_message returns Err.
#[cfg(test)]
mod verif_replay_f6 {
    use crate::messages::MessageProcessingResult;
    use crate::test_util::*;
    use crate::tests::create_test_mdk;
    use nostr::{Keys, Kind, Tags, Timestamp, UnsignedEvent};

    // F6 (sender side of F2): create_message stores the rumor under a pre-set id without checking it,
    // replacing a stored message of another author in the caller's own store.
    #[test]
    fn f6_create_message_with_preset_id_replaces_other_authors_message() {
        let (ak, bk) = (Keys::generate(), Keys::generate());
        let (a, b) = (create_test_mdk(), create_test_mdk());
        let kb = create_key_package_event(&b, &bk);
        let res = a.create_group(&ak.public_key(), vec![kb], create_nostr_group_config_data(vec![ak.public_key()])).unwrap();
        let gid = res.group.mls_group_id.clone();
        a.merge_pending_commit(&gid).unwrap();
        let w = b.process_welcome(&nostr::EventId::all_zeros(), &res.welcome_rumors[0]).unwrap();
        b.accept_welcome(&w).unwrap();
        let mut m1 = create_test_rumor(&ak, "alice original");
        let m1_id = m1.id();
        let e1 = a.create_message(&gid, m1).unwrap();
        assert!(matches!(b.process_message(&e1).unwrap(), MessageProcessingResult::ApplicationMessage(_)));
        assert_eq!(b.get_message(&gid, &m1_id).unwrap().unwrap().pubkey, ak.public_key());
        let mut forged = UnsignedEvent::new(bk.public_key(), Timestamp::now(), Kind::Custom(9), Tags::new(), "bob forged");
        forged.id = Some(m1_id);
        let r = b.create_message(&gid, forged);
        let after = b.get_message(&gid, &m1_id).unwrap().unwrap();
        println!("F6 create ok={} after: pubkey_is_bob={} content={:?} verify_id_ok={}", r.is_ok(), after.pubkey == bk.public_key(), after.content, after.event.verify_id().is_ok());
        assert_eq!(after.content, "bob forged", "expected replacement (defect) on the pre-fix tree");
    }
}
