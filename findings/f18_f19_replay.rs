// Replay of F18 and F19 against the PRE-FIX tree (mdk @ 7019410): append to crates/mdk-core/src/lib.rs of a scratch copy and run
//   cargo test --offline -p mdk-core --lib verif_replay_f18_f19 -- --nocapture
// Observed on 7019410: "F18 trailing bytes: parse_key_package -> Ok(\"ACCEPTED\")", "F19 hex-then-base64 encoding tags: parse_key_package -> Ok(\"ACCEPTED\")".
// The tests ASSERT THE DEFECTS; with the fixes (91fb2ff, 07e46db) both events are refused.
#[cfg(test)]
mod verif_replay_f18_f19 {
    use crate::test_util::*;
    use crate::tests::create_test_mdk;
    use nostr::base64::Engine;
    use nostr::base64::engine::general_purpose::STANDARD;
    use nostr::{EventBuilder, Keys, Kind, Tag};

    // F18: C15 "the parsers refuse ... trailing bytes" -- three bytes after the TLS key package are ignored
    #[test]
    fn f18_trailing_bytes_in_key_package_are_accepted() {
        let mdk = create_test_mdk();
        let keys = Keys::generate();
        let ev = create_key_package_event(&mdk, &keys);
        let mut bytes = STANDARD.decode(&ev.content).unwrap();
        bytes.extend_from_slice(&[0xAA, 0xBB, 0xCC]);
        let ev2 = EventBuilder::new(Kind::MlsKeyPackage, STANDARD.encode(&bytes)).tags(ev.tags.clone()).sign_with_keys(&keys).unwrap();
        let r = mdk.parse_key_package(&ev2).map(|_| "ACCEPTED");
        println!("F18 trailing bytes: parse_key_package -> {r:?}");
        assert!(r.is_ok());
    }
    // F19: C15 "the parsers refuse ... a missing or non-base64 encoding tag" -- ["encoding","hex"] is skipped when a base64 tag follows
    #[test]
    fn f19_non_base64_encoding_tag_is_skipped() {
        let mdk = create_test_mdk();
        let keys = Keys::generate();
        let ev = create_key_package_event(&mdk, &keys);
        let mut tags: Vec<Tag> = vec![Tag::parse(["encoding", "hex"]).unwrap()];
        tags.extend(ev.tags.iter().cloned());
        let ev2 = EventBuilder::new(Kind::MlsKeyPackage, ev.content.clone()).tags(tags).sign_with_keys(&keys).unwrap();
        let r = mdk.parse_key_package(&ev2).map(|_| "ACCEPTED");
        println!("F19 hex-then-base64 encoding tags: parse_key_package -> {r:?}");
        assert!(r.is_ok());
    }
}
