// Replays of finding F5 at remove_members (f5c) and update_group_data (f5d): append to crates/mdk-core/src/lib.rs of a scratch copy and run
//   cargo test --offline -p mdk-core --lib verif_replay_f5cd -- --nocapture
// Observed on f9a2750 (2026-10-02): 'F5c members after: bob=false carol=true dave=false', 'F5d members after: bob=false carol=true dave=true' — the tests ASSERT THE DEFECT.
#[cfg(test)]
mod verif_replay_f5cd {
    use crate::messages::MessageProcessingResult;
    use crate::test_util::*;
    use crate::tests::create_test_mdk;
    use crate::groups::NostrGroupDataUpdate;
    use nostr::Keys;
    use tls_codec::Serialize as _;

    fn setup() -> (crate::MDK<mdk_memory_storage::MdkMemoryStorage>, crate::MDK<mdk_memory_storage::MdkMemoryStorage>, crate::MDK<mdk_memory_storage::MdkMemoryStorage>, crate::MDK<mdk_memory_storage::MdkMemoryStorage>, Keys, Keys, Keys, Keys, crate::GroupId) {
        let (ak, bk, ck, dk) = (Keys::generate(), Keys::generate(), Keys::generate(), Keys::generate());
        let (a, b, c, d) = (create_test_mdk(), create_test_mdk(), create_test_mdk(), create_test_mdk());
        let kb = create_key_package_event(&b, &bk);
        let kc = create_key_package_event(&c, &ck);
        let kd = create_key_package_event(&d, &dk);
        let res = a.create_group(&ak.public_key(), vec![kb, kc, kd], create_nostr_group_config_data(vec![ak.public_key()])).unwrap();
        let gid = res.group.mls_group_id.clone();
        a.merge_pending_commit(&gid).unwrap();
        for (m, i) in [(&b, 0usize), (&c, 1), (&d, 2)] {
            let w = m.process_welcome(&nostr::EventId::all_zeros(), &res.welcome_rumors[i]).unwrap();
            m.accept_welcome(&w).unwrap();
        }
        // Carol (non-admin) proposes to remove Bob; admin Alice stores it as pending
        let mut gc = c.load_mls_group(&gid).unwrap().unwrap();
        let signer = c.load_mls_signer(&gc).unwrap();
        let bob_idx = gc.members().find(|m| c.pubkey_for_member(m).unwrap() == bk.public_key()).unwrap().index;
        let (msg, _ref) = gc.propose_remove_member(&c.provider, &signer, bob_idx).unwrap();
        let ev = c.build_message_event(&gid, msg.tls_serialize_detached().unwrap()).unwrap();
        let r = a.process_message(&ev).unwrap();
        assert!(matches!(r, MessageProcessingResult::PendingProposal { .. }));
        (a, b, c, d, ak, bk, ck, dk, gid)
    }

    #[test]
    fn f5c_remove_members_sweeps_foreign_remove_proposal() {
        let (a, _b, _c, _d, _ak, bk, ck, dk, gid) = setup();
        a.remove_members(&gid, &[dk.public_key()]).unwrap();   // Alice names only Dave
        a.merge_pending_commit(&gid).unwrap();
        let after = a.get_members(&gid).unwrap();
        println!("F5c members after: bob={} carol={} dave={}", after.contains(&bk.public_key()), after.contains(&ck.public_key()), after.contains(&dk.public_key()));
        assert!(!after.contains(&bk.public_key()), "expected Bob swept out too (defect) on current tree");
    }

    #[test]
    fn f5d_update_group_data_sweeps_foreign_remove_proposal() {
        let (a, _b, _c, _d, _ak, bk, ck, dk, gid) = setup();
        let update = NostrGroupDataUpdate::new().name("renamed".to_string());
        a.update_group_data(&gid, update).unwrap();            // Alice names only the group name
        a.merge_pending_commit(&gid).unwrap();
        let after = a.get_members(&gid).unwrap();
        println!("F5d members after: bob={} carol={} dave={}", after.contains(&bk.public_key()), after.contains(&ck.public_key()), after.contains(&dk.public_key()));
        assert!(!after.contains(&bk.public_key()), "expected Bob swept out too (defect) on current tree");
    }
}
